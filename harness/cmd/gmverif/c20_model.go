package main

// C20 part (b) - reference macro expander over c20T trees (the "60-line model": c20Model.pass,
// expand and walk), plus the table-driven computation of what each generated macro returns.
//
// Reference semantics (the property): a macro call is an element of a statement list that is the name
// of a macro; it consumes the next argNum elements of the same list, unexpanded, and is replaced by the
// macro's results in order (a result that is a block contributes its statements); a list is rescanned
// until it holds no macro call; the walk is pre-order; nothing inside ~quote is expanded; inside
// ~quasiquote only code at quasiquote depth 0 (i.e. under as many ~unquote as ~quasiquote) is expanded.
//
// Two switches reproduce, and thereby recognise exactly, two defects of the unchanged tree:
//   unwrapChild  - macroExpandCodewalk unwraps a one-statement block child BEFORE expanding it, so a lone
//                  macro call that is the whole body of a block is never seen as a list   (finding F1)
//   unwrapResult - MacroExpand1 unwraps a one-element result block, so MacroExpand stops rescanning (F2)
//   spliceNodes  - MacroExpand1 splices every result that is an AstWithSlice, which besides blocks and
//                  node slices also covers *ast.GenDecl (its specs) and *ast.ReturnStmt (its operands) (F4)
//   dropFlag     - in macroExpandCodewalk the quote/quasiquote/unquote branch returns only the "expanded"
//                  flag of its body; when a block expands to a single quote-family form inside another
//                  quote-family form, the enclosing form keeps its unexpanded original               (F5)

type c20Val struct {
	Param int     `json:"param"`           // >= 0: the argument itself; -1: see Items/Int
	Items []c20It `json:"items,omitempty"` // template: ~quote{...} / ~quasiquote{...} body elements
	Int   string  `json:"int,omitempty"`   // integer literal result
}

type c20It struct {
	Param int    `json:"param"` // >= 0: ~unquote{param}; -1: constant source
	Src   string `json:"src,omitempty"`
}

type c20Macro struct {
	Name  string   `json:"name"`
	Args  int      `json:"args"`
	Style string   `json:"style"` // param | quote | qq | multi | slice | nothing | int
	Decl  string   `json:"decl"`
	Vals  []c20Val `json:"vals"`

	consts map[string][]*c20T // parsed constant items
}

// results computes what MacroExpand1 appends for one call: every result value in order; a value that is a
// block contributes its statements (AnyToAst gives an AstWithSlice), except inside a []ast.Node result.
func (mc *c20Macro) results(args []*c20T, spliceNodes bool) []*c20T {
	var out []*c20T
	for _, v := range mc.Vals {
		var t *c20T
		switch {
		case v.Param >= 0:
			t = args[v.Param]
		case v.Int != "":
			t = &c20T{K: "BasicLit", V: "INT " + `"` + v.Int + `"`}
		default:
			var elems []*c20T
			for _, it := range v.Items {
				if it.Param >= 0 {
					elems = append(elems, args[it.Param])
				} else {
					elems = append(elems, mc.consts[it.Src]...)
				}
			}
			if len(elems) == 1 {
				t = elems[0] // ~quote{x} / ~quasiquote{x} evaluate to x itself
			} else {
				// the elements of a block are statements: a bare declaration / expression argument
				// (top-level code) gets its DeclStmt / ExprStmt wrapper here
				stmts := make([]*c20T, len(elems))
				for i, e := range elems {
					stmts[i] = c20Rewrap(e, c20sStmt)
				}
				t = c20MkBlock(stmts...)
			}
		}
		if t == nil {
			continue
		}
		if mc.Style != "slice" && t.isBlock() {
			out = append(out, t.blockList().C...)
		} else if mc.Style != "slice" && spliceNodes && (t.K == "GenDecl" || t.K == "ReturnStmt") {
			out = append(out, t.C[0].C...) // F4: the specs of a declaration / the operands of a return
		} else {
			out = append(out, t)
		}
	}
	return out
}

type c20Model struct {
	macros       map[string]*c20Macro
	unwrapChild  bool // F1
	unwrapResult bool // F2
	spliceNodes  bool // F4
	dropFlag     bool // F5

	// observations
	expanded     int            // macro calls expanded
	byMacro      map[string]int // per macro name
	maxPasses    int
	skippedQuote int  // macro names met inside ~quote / quasiquoted code (not expanded)
	underUnquote int  // expansions performed below a ~quasiquote
	emptyClause  bool // a case/comm clause body or other non-block list lost all its statements
	negDepth     bool // an ~unquote met outside any ~quasiquote (unspecified; only when a block is walked on its own)
	shortArgs    bool // a macro call without enough following statements (generator bug)
	loneCalls    int  // F1 shape met: one-statement block child that is a macro call
	singleResult int  // F2 shape met: block result of one statement that is again a macro call
}

func (m *c20Model) macroAt(e *c20T) *c20Macro {
	u := c20Unwrap(e, true) // extractMacroCall unwraps ( ), { } and statement wrappers
	if u.isIdent() {
		return m.macros[u.identName()]
	}
	return nil
}

// pass scans one list once (MacroExpand1)
func (m *c20Model) pass(elems []*c20T, underQQ bool) (out []*c20T, expanded bool) {
	for i := 0; i < len(elems); i++ {
		mc := m.macroAt(elems[i])
		if mc == nil {
			out = append(out, elems[i])
			continue
		}
		if mc.Args > len(elems)-i-1 {
			m.shortArgs = true
			return elems, false
		}
		out = append(out, mc.results(elems[i+1:i+1+mc.Args], m.spliceNodes)...)
		i += mc.Args
		expanded = true
		m.expanded++
		m.byMacro[mc.Name]++
		if underQQ {
			m.underUnquote++
		}
	}
	return out, expanded
}

var c20Empty = &c20T{K: "EmptyStmt"}

// expand rescans a list holder (a raw list or a BlockStmt) until no macro call remains (MacroExpand);
// maxPasses < 0: no limit. Returns the new holder (EmptyStmt if nothing is left, as MacroExpand1 does).
func (m *c20Model) expand(t *c20T, maxPasses int, underQQ bool) (*c20T, bool) {
	ever := false
	for n := 0; maxPasses < 0 || n < maxPasses; n++ {
		var l *c20T
		switch {
		case t == nil:
			return t, ever
		case t.L:
			l = t
		case c20Unwrap(t, false).isBlock(): // MacroExpand1 starts with UnwrapTrivialAstKeepBlocks
			t = c20Unwrap(t, false)
			l = t.blockList()
		default:
			return t, ever
		}
		elems, exp := m.pass(l.C, underQQ)
		if !exp {
			return t, ever
		}
		ever = true
		if n+1 > m.maxPasses {
			m.maxPasses = n + 1
		}
		if len(elems) == 0 {
			if t.L && t.S[0] != c20sNode {
				// a clause body: nothing is left (MacroExpand1 returns an EmptyStmt here, which the unchanged
				// tree cannot store back into the clause: finding F3)
				m.emptyClause = true
				nl := l.clone()
				nl.C = nil
				return nl, true
			}
			return c20Empty, true
		}
		nl := l.clone()
		nl.C = elems
		for i, e := range nl.C {
			nl.C[i] = c20Rewrap(e, l.S[0]) // Append() into a statement list re-creates the wrappers
		}
		if t.L {
			t = nl
		} else {
			t = t.clone()
			t.C[0] = nl
			if len(elems) == 1 && !elems[0].declaring() && m.macroAt(elems[0]) != nil {
				m.singleResult++
			}
			if len(elems) == 1 && !elems[0].declaring() {
				if u := c20Unwrap(t, true); u.isBlock() {
					t = u // `{ { a; b } }` is `{ a; b }` (allowed rewrite): the inner list is now "this position"
				}
			}
			if m.unwrapResult {
				t = c20Unwrap(t, true) // F2: any one-statement block stops being a list, also `{ mac }`
			}
		}
	}
	return t, ever
}

func c20QuoteOp(t *c20T) string {
	if t != nil && t.K == "UnaryExpr" && len(t.C) == 1 && t.C[0] != nil && t.C[0].K == "FuncLit" {
		switch t.V {
		case "~quote", "~quasiquote", "~unquote", "~unquote_splice":
			return t.V
		}
	}
	return ""
}

// walk is MacroExpandCodewalk; the flag is the "anything expanded" result
func (m *c20Model) walk(t *c20T, depth int, underQQ bool) (*c20T, bool) {
	if t == nil {
		return nil, false
	}
	if depth < 0 {
		m.negDepth = true
	}
	here := false
	if depth <= 0 {
		t, here = m.expand(t, -1, underQQ)
	} else if t.L {
		for _, e := range t.C {
			if m.macroAt(e) != nil {
				m.skippedQuote++
			}
		}
	}
	t = c20Unwrap(t, true) // the walk unwraps after expanding: `{ ~quasiquote{..} }` is seen as the quasiquote (harmless)
	if op := c20QuoteOp(t); op != "" {
		switch op {
		case "~quote":
			if depth == 0 {
				m.countSkipped(t)
				return t, here
			}
		case "~quasiquote":
			depth++
			underQQ = true
		default:
			depth--
		}
		body, below := m.child(t.C[0].C[1], depth, underQQ)
		if m.dropFlag {
			// F5: the flag of this level's own expansion is not passed on, and the form is rebuilt only if
			// something below was expanded - an enclosing quote form then keeps its unexpanded original
			if !below {
				return t, false
			}
			here = false
		}
		out := t.clone()
		fl := t.C[0].clone()
		fl.C[1] = c20Rewrap(body, c20sBlock)
		out.C[0] = fl
		return out, here || below
	}
	out := t.clone()
	for i, c := range out.C {
		x, below := m.child(c, depth, underQQ)
		out.C[i] = c20Rewrap(x, t.slot(i)) // what Set(i, child) re-creates
		here = here || below
	}
	return out, here
}

func (m *c20Model) child(c *c20T, depth int, underQQ bool) (*c20T, bool) {
	if c != nil && c.isBlock() && len(c.blockList().C) == 1 && depth <= 0 {
		if e := c.blockList().C[0]; !e.declaring() && m.macroAt(e) != nil {
			m.loneCalls++
		}
	}
	if m.unwrapChild {
		c = c20Unwrap(c, true) // F1
	}
	return m.walk(c, depth, underQQ)
}

func (m *c20Model) countSkipped(t *c20T) {
	if t == nil {
		return
	}
	if t.L {
		for _, e := range t.C {
			if m.macroAt(e) != nil {
				m.skippedQuote++
			}
		}
	}
	for _, c := range t.C {
		m.countSkipped(c)
	}
}

func c20NewModel(macros []*c20Macro, flags int) *c20Model {
	m := &c20Model{macros: map[string]*c20Macro{}, byMacro: map[string]int{}, unwrapChild: flags&1 != 0, unwrapResult: flags&2 != 0, spliceNodes: flags&4 != 0, dropFlag: flags&8 != 0}
	for _, mc := range macros {
		m.macros[mc.Name] = mc
	}
	return m
}
