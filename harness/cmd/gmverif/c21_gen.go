package main

// C21 — random generator of quote values and quasiquote templates (source text).

import (
	"math/rand"
	"strings"
)

type c21Binding struct {
	Name string `json:"name"`
	Src  string `json:"src"` // a ~quote{...} form
	kind string
}

// variable pools; every variable is declared `var NAME interface{}` in both interpreters
var (
	c21ExprVars    = []string{"qe0", "qe1", "qe2"}        // one expression
	c21TypeVars    = []string{"qt0"}                      // one type expression
	c21StmtVars    = []string{"qs0", "qs1"}               // one statement (not a block)
	c21EListVars   = []string{"qb0", "qb1", "qb2", "qb3"} // block of 0,1,2,3 expression statements
	c21SListVars   = []string{"qm0", "qm1"}               // block of >= 2 statements
	c21ClausesVars = []string{"qc0"}                      // block of >= 2 case clauses
	c21ClauseVars  = []string{"qc1"}                      // one case clause
)

func c21AllVars() []string {
	var all []string
	for _, l := range [][]string{c21ExprVars, c21TypeVars, c21StmtVars, c21EListVars, c21SListVars, c21ClausesVars, c21ClauseVars} {
		all = append(all, l...)
	}
	return all
}

type c21Gen struct {
	rng     *rand.Rand
	literal bool // inside a ~quote value: nothing is evaluated, unquote payloads are arbitrary
	maxLv   int
}

func (g *c21Gen) pick(s ...string) string { return s[g.rng.Intn(len(s))] }
func (g *c21Gen) chance(pct int) bool     { return g.rng.Intn(100) < pct }

func (g *c21Gen) ident() string { return g.pick("a", "b", "c", "f", "g", "h", "m", "n", "p", "v", "w") }
func (g *c21Gen) leaf() string {
	switch g.rng.Intn(10) {
	case 0, 1:
		return g.pick("0", "1", "2", "7", "42", "100")
	case 2:
		return g.pick(`"s"`, `"foo"`, `"bar"`)
	case 3:
		return g.pick("1.5", "'x'", "nil", "true")
	}
	return g.ident()
}

func (g *c21Gen) typ(lv int) string {
	if lv > 0 && g.chance(30) {
		if g.literal {
			return g.chainAround(lv, false, g.ident(), true)
		}
		return g.chainAround(lv, false, g.pick(c21TypeVars...), true)
	}
	return g.pick("int", "string", "[]int", "map[string]int", "*T", "T", "chan int", "func(int) bool", "struct{ A int }", "[4]byte", "interface{}")
}

// typExpr: a type that also parses as a stand-alone expression statement
func (g *c21Gen) typExpr() string {
	return g.pick("int", "string", "*T", "T", "pkg.Type", "**pkg.T", "error")
}

// chainAround wraps payload in k unquote operators, with random use of braces and long spellings.
// simple = payload may follow the operator without braces (identifier, literal, or another ~form)
func (g *c21Gen) chainAround(k int, splice bool, payload string, simple bool) string {
	s := payload
	for i := k - 1; i >= 0; i-- {
		isSplice := splice && (i == k-1 || g.chance(30))
		op, short := "~,", true
		switch {
		case isSplice && g.chance(15):
			op, short = "~unquote_splice", false
		case isSplice:
			op = "~,@"
		case g.chance(15):
			op, short = "~unquote", false
		}
		if simple && short && g.chance(70) {
			s = op + s
		} else {
			s = op + "{" + s + "}"
		}
		simple = true // a ~form may follow an operator directly
	}
	return s
}

// ---- expressions ----

func (g *c21Gen) expr(lv, sz int) string {
	if lv > 0 && g.chance(22) {
		return g.unqExpr(lv, sz)
	}
	if sz <= 0 {
		return g.leaf()
	}
	switch g.rng.Intn(20) {
	case 0, 1, 2:
		return g.leaf()
	case 3, 4, 5:
		op := g.pick("+", "-", "*", "/", "%", "&", "|", "^", "<<", ">>", "&&", "||", "==", "!=", "<", "<=", ">", ">=", "&^")
		return g.expr(lv, sz/2) + " " + op + " " + g.expr(lv, sz/2)
	case 6:
		return "(" + g.expr(lv, sz-1) + ")"
	case 7, 8, 9:
		return g.call(lv, sz)
	case 10:
		return g.pick("-", "!", "^", "*", "&", "<-") + g.primary(lv, sz-1)
	case 11:
		return g.primary(lv, sz-1) + "[" + g.expr(lv, sz/2) + "]"
	case 12:
		return noDigitEnd(g.primary(lv, sz-1)) + "." + g.pick("x", "Field", "f")
	case 13:
		if g.chance(50) {
			return "[]" + g.typ(lv) + "{" + g.exprList(lv, sz-1, 0) + "}"
		}
		return "T{A: " + g.expr(lv, sz/2) + ", B: " + g.expr(lv, sz/2) + "}"
	case 14:
		return "func(a " + g.typ(lv) + ") " + g.typ(lv) + " { " + g.stmtList(lv, sz-1, g.rng.Intn(3)) + " }"
	case 15:
		return g.primary(lv, sz-1) + "[" + g.expr(lv, sz/3) + ":" + g.expr(lv, sz/3) + "]"
	case 16:
		return noDigitEnd(g.primary(lv, sz-1)) + ".(" + g.typ(lv) + ")"
	case 17:
		if lv < g.maxLv && (lv >= 1 || g.literal) {
			return g.pick(`~"{`, "~quasiquote{") + g.expr(lv+1, sz-1) + "}"
		}
	case 18:
		if lv >= 1 || g.literal {
			return g.pick("~'{", "~quote{") + g.expr(lv, sz-1) + "}"
		}
	}
	return g.call(lv, sz)
}

func (g *c21Gen) primary(lv, sz int) string {
	if lv > 0 && g.chance(25) {
		return g.unqExpr(lv, sz)
	}
	switch g.rng.Intn(4) {
	case 0:
		return g.call(lv, sz)
	case 1:
		return "(" + g.expr(lv, sz) + ")"
	}
	return g.ident()
}

// noDigitEnd parenthesises p when a following '.' would be lexed into a number
func noDigitEnd(p string) string {
	if c := p[len(p)-1]; c >= '0' && c <= '9' {
		return "(" + p + ")"
	}
	return p
}

func (g *c21Gen) call(lv, sz int) string {
	fun := g.pick("f", "g", "h", "pkg.Fun")
	if lv > 0 && g.chance(8) {
		fun = g.unqExpr(lv, 1)
	}
	args := g.exprList(lv, sz-1, 0)
	if args != "" && g.chance(8) {
		args += " ..."
	}
	return fun + "(" + args + ")"
}

// header: an expression for an if/for/switch header (composite literals and ~forms need parentheses there)
func (g *c21Gen) header(lv, sz int) string {
	e := g.expr(lv, sz)
	if strings.Contains(e, "{") {
		e = "(" + e + ")"
	}
	return e
}

// exprList generates a comma-separated list with at least min textual elements
func (g *c21Gen) exprList(lv, sz, min int) string {
	n := min + g.rng.Intn(4)
	var parts []string
	for i := 0; i < n; i++ {
		if lv > 0 && g.chance(30) {
			parts = append(parts, g.spliceExpr(lv, sz))
		} else {
			parts = append(parts, g.expr(lv, sz/(n+1)))
		}
	}
	return strings.Join(parts, ", ")
}

// unqExpr: an unquote chain in expression position
func (g *c21Gen) unqExpr(lv, sz int) string {
	k := lv
	if lv > 1 && g.chance(35) {
		k = 1 + g.rng.Intn(lv-1)
	}
	if k < lv {
		// not evaluated by the outermost quasiquote: the body is a template of level lv-k
		return g.chainAround(k, false, g.expr(lv-k, sz-1), false)
	}
	if g.literal {
		return g.chainAround(k, false, g.expr(0, 1), false)
	}
	payload, simple := g.valueExpr(sz)
	return g.chainAround(k, false, payload, simple)
}

// valueExpr: an expression the harness can evaluate itself, yielding one expression tree
func (g *c21Gen) valueExpr(sz int) (string, bool) {
	switch r := g.rng.Intn(100); {
	case r < 40:
		return g.pick(c21ExprVars...), true
	case r < 60:
		sub := &c21Gen{rng: g.rng, literal: true, maxLv: g.maxLv}
		return g.pick("~'{", "~quote{") + sub.expr(0, sz) + "}", true
	case r < 72:
		return g.pick("7", "42", "0", `"s"`, `"foo"`), true
	default:
		return g.pick(`~"{`, "~quasiquote{") + g.expr(1, sz-1) + "}", true
	}
}

// spliceExpr: an unquote_splice chain as an element of an expression list
func (g *c21Gen) spliceExpr(lv, sz int) string {
	k := lv
	if lv > 1 && g.chance(30) {
		k = 1 + g.rng.Intn(lv-1)
	}
	if k < lv {
		return g.chainAround(k, true, g.expr(lv-k, sz-1), false)
	}
	if g.literal {
		return g.chainAround(k, true, g.ident(), true)
	}
	switch r := g.rng.Intn(100); {
	case r < 55:
		return g.chainAround(k, true, g.pick(c21EListVars...), true)
	case r < 80:
		sub := &c21Gen{rng: g.rng, literal: true, maxLv: g.maxLv}
		return g.chainAround(k, true, "~'"+sub.exprBlock(sz), true)
	default:
		// a nested quasiquote of >= 2 expression statements
		n := 2 + g.rng.Intn(2)
		var parts []string
		for i := 0; i < n; i++ {
			if g.chance(25) {
				parts = append(parts, g.spliceExpr(1, sz/2))
			} else {
				parts = append(parts, g.expr(1, sz/3))
			}
		}
		return g.chainAround(k, true, `~"{`+strings.Join(parts, "; ")+"}", true)
	}
}

// exprBlock: "{...}" such that ~quote of it is a block of n expression statements
func (g *c21Gen) exprBlock(sz int) string {
	n := g.rng.Intn(4)
	var parts []string
	for i := 0; i < n; i++ {
		parts = append(parts, g.expr(0, sz/3))
	}
	s := "{" + strings.Join(parts, "; ") + "}"
	if n < 2 {
		s = "{" + s + "}"
	}
	return s
}

// ---- statements ----

func (g *c21Gen) stmt(lv, sz int, noBlock bool) string {
	if lv > 0 && g.chance(20) {
		return g.unqStmt(lv, sz)
	}
	if sz <= 0 {
		switch g.rng.Intn(4) {
		case 0:
			return g.ident() + g.pick("++", "--")
		case 1:
			return g.ident() + " = " + g.expr(lv, 0)
		case 2:
			return "return " + g.expr(lv, 0)
		}
		return g.ident() + "(" + g.exprList(lv, 0, 0) + ")"
	}
	switch g.rng.Intn(20) {
	case 0, 1:
		return g.call(lv, sz)
	case 2:
		return g.ident()
	case 3, 4:
		return g.ident() + " " + g.pick("=", "+=", ":=", "<<=") + " " + g.expr(lv, sz-1)
	case 5:
		return g.ident() + ", " + g.ident() + " " + g.pick("=", ":=") + " " + g.exprList(lv, sz-1, 1)
	case 6:
		return g.ident() + g.pick("++", "--")
	case 7, 8:
		s := "if " + g.header(lv, sz/2) + " { " + g.stmtList(lv, sz/2, g.rng.Intn(3)) + " }"
		if g.chance(40) {
			s += " else { " + g.stmtList(lv, sz/2, g.rng.Intn(3)) + " }"
		}
		return s
	case 9:
		switch g.rng.Intn(3) {
		case 0:
			return "for i := 0; " + g.header(lv, sz/2) + "; i++ { " + g.stmtList(lv, sz/2, g.rng.Intn(3)) + " }"
		case 1:
			return "for " + g.header(lv, sz/2) + " { " + g.stmtList(lv, sz/2, 1+g.rng.Intn(2)) + "; " + g.pick("break", "continue", "continue L") + " }"
		}
		return "for k, v := range " + g.header(lv, sz/2) + " { " + g.stmtList(lv, sz/2, g.rng.Intn(3)) + " }"
	case 10, 11:
		return "switch " + g.header(lv, sz/3) + " { " + g.clauses(lv, sz-1) + " }"
	case 12:
		return "return " + g.exprList(lv, sz-1, 0)
	case 13:
		if !noBlock {
			return "{ " + g.stmtList(lv, sz-1, g.rng.Intn(4)) + " }"
		}
	case 14:
		switch g.rng.Intn(3) {
		case 0:
			return "var v = " + g.expr(lv, sz-1)
		case 1:
			return "var v " + g.typ(lv)
		}
		return "var v, w = " + g.exprList(lv, sz-1, 1)
	case 15:
		return g.pick("defer ", "go ") + g.call(lv, sz-1)
	case 16:
		return g.ident() + " <- " + g.expr(lv, sz-1)
	case 17:
		if lv < g.maxLv && (lv >= 1 || g.literal) {
			return g.pick(`~"{`, "~quasiquote{") + g.stmtBody(lv+1, sz-1) + "}"
		}
	case 18:
		if lv >= 1 || g.literal {
			return g.pick("~'{", "~quote{") + g.stmtBody(lv, sz-1) + "}"
		}
	case 19:
		return "select { case " + g.ident() + " <- " + g.expr(lv, sz/2) + ": " + g.stmtList(lv, sz/2, g.rng.Intn(3)) + " }"
	}
	return g.ident() + " = " + g.expr(lv, sz-1)
}

// stmtBody: the statements of a quote-family body; a sole statement is never a block
func (g *c21Gen) stmtBody(lv, sz int) string {
	n := 1 + g.rng.Intn(3)
	if n == 1 {
		return g.stmt(lv, sz, true)
	}
	return g.stmtList(lv, sz, n)
}

func (g *c21Gen) stmtList(lv, sz, n int) string {
	var parts []string
	for i := 0; i < n; i++ {
		if lv > 0 && g.chance(25) {
			parts = append(parts, g.spliceStmt(lv, sz))
		} else {
			parts = append(parts, g.stmt(lv, sz/(n+1), false))
		}
	}
	return strings.Join(parts, "; ")
}

func (g *c21Gen) unqStmt(lv, sz int) string {
	k := lv
	if lv > 1 && g.chance(35) {
		k = 1 + g.rng.Intn(lv-1)
	}
	if k < lv {
		return g.chainAround(k, false, g.stmtBody(lv-k, sz-1), false)
	}
	if g.literal {
		return g.chainAround(k, false, g.ident(), true)
	}
	switch r := g.rng.Intn(100); {
	case r < 20:
		return g.chainAround(k, false, g.pick(c21ExprVars...), true)
	case r < 45:
		return g.chainAround(k, false, g.pick(c21StmtVars...), true)
	case r < 55:
		return g.chainAround(k, false, g.pick(c21SListVars...), true) // a block inserted as one statement
	case r < 75:
		sub := &c21Gen{rng: g.rng, literal: true, maxLv: g.maxLv}
		return g.chainAround(k, false, "~'{"+sub.stmt(0, sz, true)+"}", true)
	default:
		return g.chainAround(k, false, `~"{`+g.stmtBody(1, sz-1)+"}", true)
	}
}

func (g *c21Gen) spliceStmt(lv, sz int) string {
	k := lv
	if lv > 1 && g.chance(30) {
		k = 1 + g.rng.Intn(lv-1)
	}
	if k < lv {
		return g.chainAround(k, true, g.stmtBody(lv-k, sz-1), false)
	}
	if g.literal {
		return g.chainAround(k, true, g.ident(), true)
	}
	switch r := g.rng.Intn(100); {
	case r < 30:
		return g.chainAround(k, true, g.pick(c21EListVars...), true)
	case r < 55:
		return g.chainAround(k, true, g.pick(c21SListVars...), true)
	case r < 80:
		sub := &c21Gen{rng: g.rng, literal: true, maxLv: g.maxLv}
		n := g.rng.Intn(4)
		s := "{" + sub.stmtList(0, sz, n) + "}"
		if n < 2 {
			s = "{" + s + "}"
		}
		return g.chainAround(k, true, "~'"+s, true)
	default:
		n := 2 + g.rng.Intn(2)
		return g.chainAround(k, true, `~"{`+g.stmtList(1, sz, n)+"}", true)
	}
}

// clauses: the body of a switch
func (g *c21Gen) clauses(lv, sz int) string {
	var parts []string
	if lv > 0 && !g.literal {
		if g.chance(30) {
			parts = append(parts, g.chainAround(lv, true, g.pick(c21ClausesVars...), true))
		}
		if g.chance(20) {
			parts = append(parts, g.chainAround(lv, false, g.pick(c21ClauseVars...), true))
		}
	}
	n := g.rng.Intn(3)
	for i := 0; i < n; i++ {
		parts = append(parts, g.clause(lv, sz/(n+1), i == n-1 && g.chance(30)))
	}
	return strings.Join(parts, "; ")
}

func (g *c21Gen) clause(lv, sz int, dflt bool) string {
	head := "case " + g.exprList(lv, sz, 1)
	if dflt {
		head = "default"
	}
	return head + ": " + g.stmtList(lv, sz, g.rng.Intn(3))
}

// ---- top level ----

// template returns a ~quasiquote form and the name of its shape
func (g *c21Gen) template() (string, string) {
	sz := 2 + g.rng.Intn(8)
	open := g.pick(`~"{`, `~"{`, "~quasiquote{")
	switch r := g.rng.Intn(100); {
	case r < 22:
		return open + g.expr(1, sz) + "}", "expression"
	case r < 35:
		return open + g.call(1, sz) + "}", "call"
	case r < 48:
		return open + g.stmt(1, sz, true) + "}", "statement"
	case r < 68:
		return open + g.stmtList(1, sz, 2+g.rng.Intn(3)) + "}", "statements"
	case r < 76:
		return open + g.clause(1, sz, g.chance(15)) + "}", "case clause"
	case r < 81:
		return open + "switch " + g.ident() + " { " + g.clauses(1, sz) + " }}", "switch"
	case r < 86:
		// the special path of a template that is exactly one unquote / unquote_splice
		var v string
		switch g.rng.Intn(5) {
		case 0:
			v = g.chainAround(1, false, g.pick(c21ExprVars...), true)
		case 1:
			v = g.chainAround(1, false, g.pick(c21StmtVars...), true)
		case 2:
			v = g.chainAround(1, false, g.pick(c21SListVars...), true)
		case 3:
			v = g.chainAround(1, true, g.pick(c21SListVars...), true)
		default:
			v = g.chainAround(1, true, g.pick(c21EListVars...), true)
		}
		if g.chance(30) && !strings.HasPrefix(v, "~unquote") {
			return `~"` + v, "sole unquote"
		}
		return open + v + "}", "sole unquote"
	default:
		// nested quasiquote directly at top
		if g.chance(40) {
			return open + `~"{` + g.stmtBody(2, sz) + "}}", "nested quasiquote"
		}
		if g.chance(50) {
			return open + g.ident() + `(~"{` + g.stmtBody(2, sz) + "})}", "nested quasiquote"
		}
		return open + `~"{` + g.ident() + `; ~"{` + g.stmtBody(3, sz) + "}}}", "nested quasiquote x3"
	}
}

// bindings generates fresh ~quote values for every variable
func (g *c21Gen) bindings() []c21Binding {
	lit := &c21Gen{rng: g.rng, literal: true, maxLv: g.maxLv}
	q := func() string { return g.pick("~quote", "~'") }
	var out []c21Binding
	for _, v := range c21ExprVars {
		out = append(out, c21Binding{Name: v, Src: q() + "{" + lit.expr(0, 1+g.rng.Intn(6)) + "}", kind: "expression"})
	}
	for _, v := range c21TypeVars {
		out = append(out, c21Binding{Name: v, Src: q() + "{" + lit.typExpr() + "}", kind: "type"})
	}
	for _, v := range c21StmtVars {
		out = append(out, c21Binding{Name: v, Src: q() + "{" + lit.stmt(0, 1+g.rng.Intn(6), true) + "}", kind: "statement"})
	}
	for i, v := range c21EListVars {
		var parts []string
		for j := 0; j < i; j++ {
			parts = append(parts, lit.expr(0, g.rng.Intn(4)))
		}
		s := "{" + strings.Join(parts, "; ") + "}"
		if i < 2 {
			s = "{" + s + "}"
		}
		out = append(out, c21Binding{Name: v, Src: q() + s, kind: "expression block"})
	}
	for _, v := range c21SListVars {
		out = append(out, c21Binding{Name: v, Src: q() + "{" + lit.stmtList(0, 6, 2+g.rng.Intn(2)) + "}", kind: "statement block"})
	}
	for _, v := range c21ClausesVars {
		n := 2 + g.rng.Intn(2)
		var parts []string
		for j := 0; j < n; j++ {
			parts = append(parts, lit.clause(0, 3, j == n-1 && g.chance(50)))
		}
		out = append(out, c21Binding{Name: v, Src: q() + "{" + strings.Join(parts, "; ") + "}", kind: "case clauses"})
	}
	for _, v := range c21ClauseVars {
		out = append(out, c21Binding{Name: v, Src: q() + "{" + lit.clause(0, 3, false) + "}", kind: "case clause"})
	}
	return out
}
