package main

// C34 — generic-contract ("contracts are interfaces") methods on basic and container types
// agree with the corresponding Go operator or builtin.

import (
	"fmt"
	"strings"

	"gmverif/internal/fw"
)

func init() { register("C34", "exploration", checkC34) }

type c34Method struct {
	name   string
	params string // function parameters
	interp string // expression in the interpreter (method call)
	ref    string // expression in compiled Go (operator / builtin)
	valid  func(k *kindInfo) bool
	shape  string // "VV" binary over operands, "V" unary, "VN" value + uint8 count
}

func c34BasicMethods() []c34Method {
	num := func(k *kindInfo) bool { return k.isNumeric() }
	integer := func(k *kindInfo) bool { return k.isInteger() }
	bin := func(name, op string, v func(*kindInfo) bool) c34Method {
		return c34Method{name, "a, b K", "z." + name + "(a, b)", "a " + op + " b", v, "VV"}
	}
	return []c34Method{
		{"Equal", "a, b K", "a.Equal(b)", "a == b", func(k *kindInfo) bool { return true }, "VV"},
		{"Less", "a, b K", "a.Less(b)", "a < b", func(k *kindInfo) bool { return k.isOrdered() }, "VV"},
		{"Cmp", "a, b K", "a.Cmp(b)", "§cmp3(a, b)", func(k *kindInfo) bool { return k.isOrdered() }, "VV"},
		bin("Add", "+", func(k *kindInfo) bool { return k.isNumeric() || k.Class == "string" }),
		bin("Sub", "-", num), bin("Mul", "*", num), bin("Quo", "/", num),
		bin("Rem", "%", integer), bin("And", "&", integer), bin("Or", "|", integer), bin("Xor", "^", integer), bin("AndNot", "&^", integer),
		{"Neg", "a K", "z.Neg(a)", "-a", num, "V"},
		{"Not", "a K", "z.Not(a)", "^a", integer, "V"},
		{"Not", "a K", "z.Not(a)", "!a", func(k *kindInfo) bool { return k.Class == "bool" }, "V"},
		{"Lsh", "a K, n uint8", "z.Lsh(a, n)", "a << n", integer, "VN"},
		{"Rsh", "a K, n uint8", "z.Rsh(a, n)", "a >> n", integer, "VN"},
		{"Real", "a K", "z.Real(a)", "real(a)", func(k *kindInfo) bool { return k.Class == "complex" }, "V"},
		{"Imag", "a K", "z.Imag(a)", "imag(a)", func(k *kindInfo) bool { return k.Class == "complex" }, "V"},
		{"Real", "a K", "a.Real()", "real(a)", func(k *kindInfo) bool { return k.Class == "complex" }, "V"},
		{"Imag", "a K", "a.Imag()", "imag(a)", func(k *kindInfo) bool { return k.Class == "complex" }, "V"},
	}
}

func c34Basic(id int, m c34Method, k *kindInfo, r *fw.Run) *Prog {
	rng := r.Rng(fmt.Sprintf("b%d", id))
	build := func(expr string) string {
		var src strings.Builder
		src.WriteString("func §rc(tag int) { if r := recover(); r != nil { rec(-tag, pcl(r)) } }\n")
		if m.name == "Cmp" {
			src.WriteString("func §cmp3(a, b K) int { if a < b { return -1 }; if a > b { return 1 }; return 0 }\n")
		}
		fmt.Fprintf(&src, "func §e(%s) {\ndefer §rc(1)\nvar z K\n_ = z\nrec(1, %s)\n}\n", m.params, expr)
		src.WriteString("func §P() {\n")
		switch k.Class {
		case "bool":
			src.WriteString("var z, o K = false, true\n")
		case "string":
			src.WriteString("var z, o K = \"\", \"1\"\n")
		default:
			src.WriteString("var z, o K = 0, 1\n")
		}
		src.WriteString("_ = z\n_ = o\n")
		as := k.varOperands(rng, 0)
		fmt.Fprintf(&src, "as := []K{%s}\n", strings.Join(as, ", "))
		switch m.shape {
		case "VV":
			src.WriteString("for _, a := range as {\nfor _, b := range as {\n§e(a, b)\n}\n}\n")
		case "V":
			src.WriteString("for _, a := range as {\n§e(a)\n}\n")
		case "VN":
			src.WriteString("for _, a := range as {\nfor _, n := range []uint8{0, 1, 2, 7, 8, 15, 16, 31, 32, 63, 64, 65, 255} {\n§e(a, n)\n}\n}\n")
		}
		src.WriteString("}\n")
		return strings.ReplaceAll(src.String(), "K", k.Name)
	}
	return &Prog{ID: fmt.Sprintf("c34-%d", id), Src: build(m.interp), RefSrc: build(m.ref), Cell: m.name + "/" + k.Name,
		Mode: map[string]string{"generics": "cti"}}
}

type c34Cont struct {
	name   string
	interp string // statements for the interpreter
	ref    string // statements for compiled Go
}

// container methods: each entry is a body run for every index/operand combination i, j, k in a small range
func c34Containers(elem string, vals []string) []struct {
	cell string
	decl string
	ms   []c34Cont
} {
	E := elem
	v0, v1, v2 := vals[0], vals[1], vals[2]
	mk := func(s string) string {
		return strings.NewReplacer("E", E, "V0", v0, "V1", v1, "V2", v2).Replace(s)
	}
	sliceM := []c34Cont{
		{"Len", "rec(1, s.Len(), s.Cap())", "rec(1, len(s), cap(s))"},
		{"Index", "rec(2, s.Index(i))", "rec(2, s[i])"},
		{"SetIndex", "s.SetIndex(i, V2)\nrec(3, s)", "s[i] = V2\nrec(3, s)"},
		{"AddrIndex", "p := s.AddrIndex(i)\n*p = V2\nrec(4, s)", "p := &s[i]\n*p = V2\nrec(4, s)"},
		{"Slice", "rec(5, nc(s.Slice(i, j)))", "rec(5, nc(s[i:j]))"},
		{"Slice3", "rec(6, s.Slice3(i, j, k))", "rec(6, s[i:j:k])"},
		{"Append", "t := s.Append(V1, V2)\nrec(7, nc(t), s)", "t := append(s, V1, V2)\nrec(7, nc(t), s)"},
		{"Append0", "t := s.Append()\nrec(8, t)", "t := append(s)\nrec(8, t)"},
		{"Copy", "t := make([]E, 2)\nt.Copy(s)\nrec(9, t)\ns.Copy(t)\nrec(10, s)", "t := make([]E, 2)\ncopy(t, s)\nrec(9, t)\ncopy(s, t)\nrec(10, s)"},
	}
	arrM := []c34Cont{
		{"Len", "rec(1, s.Len(), s.Cap())", "rec(1, len(s), cap(s))"},
		{"Index", "rec(2, s.Index(i))", "rec(2, s[i])"},
		{"SetIndex", "s.SetIndex(i, V2)\nrec(3, s)", "s[i] = V2\nrec(3, s)"},
		{"AddrIndex", "p := s.AddrIndex(i)\n*p = V2\nrec(4, s)", "p := &s[i]\n*p = V2\nrec(4, s)"},
		{"Slice", "rec(5, s.Slice(i, j))", "rec(5, s[i:j])"},
		{"Slice3", "rec(6, s.Slice3(i, j, k))", "rec(6, s[i:j:k])"},
		{"Copy", "s.Copy([]E{V2, V2})\nrec(9, s)", "copy(s[:], []E{V2, V2})\nrec(9, s)"},
	}
	mapM := []c34Cont{
		{"Len", "rec(1, m.Len())", "rec(1, len(m))"},
		{"Index", "rec(2, m.Index(i))", "rec(2, m[i])"},
		{"TryIndex", "v, ok := m.TryIndex(i)\nrec(3, v, ok)", "v, ok := m[i]\nrec(3, v, ok)"},
		{"SetIndex", "m.SetIndex(i, V2)\nrec(4, m)", "m[i] = V2\nrec(4, m)"},
		{"DelIndex", "m.DelIndex(i)\nrec(5, m)", "delete(m, i)\nrec(5, m)"},
	}
	chanM := []c34Cont{
		{"LenCap", "rec(1, c.Len(), c.Cap())", "rec(1, len(c), cap(c))"},
		{"Send", "c.Send(V2)\nrec(2, c.Len())", "c <- V2\nrec(2, len(c))"},
		{"Recv", "v, ok := c.Recv()\nrec(3, v, ok)", "v, ok := <-c\nrec(3, v, ok)"},
		{"Close", "c.Close()\nv, ok := c.Recv()\nrec(4, v, ok)\nv, ok = c.Recv()\nrec(5, v, ok)", "close(c)\nv, ok := <-c\nrec(4, v, ok)\nv, ok = <-c\nrec(5, v, ok)"},
		{"CloseTwice", "c.Close()\nc.Close()", "close(c)\nclose(c)"},
		{"SendClosed", "c.Close()\nc.Send(V1)", "close(c)\nc <- V1"},
	}
	strM := []c34Cont{
		{"Len", "rec(1, s.Len())", "rec(1, len(s))"},
		{"Index", "rec(2, s.Index(i))", "rec(2, s[i])"},
		{"Slice", "rec(3, s.Slice(i, j))", "rec(3, s[i:j])"},
	}
	bytesM := []c34Cont{
		{"AppendString", "t := s.AppendString(\"xyz\")\nrec(11, nc(t))", "t := append(s, \"xyz\"...)\nrec(11, nc(t))"},
		{"CopyString", "s.CopyString(\"xy\")\nrec(12, s)", "copy(s, \"xy\")\nrec(12, s)"},
	}
	out := []struct {
		cell string
		decl string
		ms   []c34Cont
	}{
		{"slice/" + E, mk("s := make([]E, 3, 5)\ns[0], s[1], s[2] = V0, V1, V0\n"), nil},
		{"array/" + E, mk("arr := [3]E{V0, V1, V0}\ns := &arr\n"), nil},
		{"map/" + E, mk("m := map[int]E{0: V0, 1: V1}\n"), nil},
		{"chan/" + E, mk("c := make(chan E, 2)\nc <- V0\n"), nil},
	}
	for _, x := range sliceM {
		out[0].ms = append(out[0].ms, c34Cont{x.name, mk(x.interp), mk(x.ref)})
	}
	for _, x := range arrM {
		out[1].ms = append(out[1].ms, c34Cont{x.name, mk(x.interp), mk(x.ref)})
	}
	for _, x := range mapM {
		out[2].ms = append(out[2].ms, c34Cont{x.name, mk(x.interp), mk(x.ref)})
	}
	for _, x := range chanM {
		out[3].ms = append(out[3].ms, c34Cont{x.name, mk(x.interp), mk(x.ref)})
	}
	if elem == "string" {
		out = append(out, struct {
			cell string
			decl string
			ms   []c34Cont
		}{"string", "s := \"héllo\"\n", strM})
	}
	if elem == "uint8" {
		out = append(out, struct {
			cell string
			decl string
			ms   []c34Cont
		}{"bytes", "s := make([]byte, 3, 8)\ns[0], s[1], s[2] = 1, 2, 3\n", bytesM})
	}
	return out
}

func checkC34(r *fw.Run) {
	r.SetRule("one program per (contract method, basic kind) evaluating the method call on the full boundary operand matrix, and one per (container kind, element kind, method) evaluating it for every index triple in -1..cap+1; the compiled reference evaluates the corresponding operator or builtin on the same operands; calls that do not compile in the interpreter are skipped (the property is conditional on compiling) and counted; oracle = trace equality incl. panic class; distinct = distinct program texts that compiled")
	r.Assume("go/types + cmd/compile 1.23.5 are the reference for the operator/builtin; generics mode 'contracts are interfaces' enabled as the gomacro command does")
	o := e1Opts{SkipUnsupported: func(p *Prog, got *Result) bool { return got.End == "compile-error" }}
	if p := fw.ReplayArg(); p != "" {
		e1ReplayFile(r, p, o)
		return
	}
	var progs []*Prog
	id := 0
	for _, m := range c34BasicMethods() {
		for i := range allKinds {
			k := &allKinds[i]
			if !m.valid(k) {
				continue
			}
			id++
			progs = append(progs, c34Basic(id, m, k, r))
		}
	}
	elems := map[string][]string{
		"int": {"7", "-3", "99"}, "uint8": {"1", "2", "200"}, "string": {`"a"`, `"bc"`, `"z"`}, "float64": {"1.5", "-0.25", "3"},
		"bool": {"true", "false", "true"}, "complex64": {"1i", "2", "(3+4i)"}, "int16": {"-7", "300", "5"},
	}
	names := []string{"int", "uint8", "string", "float64"}
	if r.Thorough() {
		names = []string{"int", "uint8", "string", "float64", "bool", "complex64", "int16"}
	}
	for _, e := range names {
		for _, c := range c34Containers(e, elems[e]) {
			for _, m := range c.ms {
				build := func(body string) string {
					var src strings.Builder
					src.WriteString("func §rc(tag int) { if r := recover(); r != nil { rec(-tag, pcl(r)) } }\n")
					fmt.Fprintf(&src, "func §e(i, j, k int) {\ndefer §rc(1)\n%s_, _, _ = i, j, k\n%s\n}\n", c.decl, body)
					src.WriteString("func §P() {\nfor i := -1; i <= 6; i++ {\n")
					if strings.Contains(body, "j") {
						src.WriteString("for j := -1; j <= 6; j++ {\n")
						if strings.Contains(body, "k)") || strings.Contains(body, ":k") {
							src.WriteString("for k := -1; k <= 6; k++ {\n§e(i, j, k)\n}\n")
						} else {
							src.WriteString("§e(i, j, 0)\n")
						}
						src.WriteString("}\n")
					} else {
						src.WriteString("§e(i, 0, 0)\n")
					}
					src.WriteString("}\n}\n")
					return src.String()
				}
				id++
				// `_, _, _ = i, j, k` would hit nothing special; use separate blank assignments
				p := &Prog{ID: fmt.Sprintf("c34-c%d", id), Src: strings.ReplaceAll(build(m.interp), "_, _, _ = i, j, k", "_ = i\n_ = j\n_ = k"),
					RefSrc: strings.ReplaceAll(build(m.ref), "_, _, _ = i, j, k", "_ = i\n_ = j\n_ = k"), Cell: c.cell + "/" + m.name, Mode: map[string]string{"generics": "cti"}}
				progs = append(progs, p)
			}
		}
	}
	r.Extra("programs", len(progs))
	e1Run(r, progs, o)
	if r.Counter("skipped_unsupported")*2 > int64(len(progs)) {
		r.Inconclusive(fmt.Sprintf("most contract-method calls did not compile (%d of %d): the generator no longer matches the method signatures", r.Counter("skipped_unsupported"), len(progs)))
	}
}
