package main

// C12 - a panic escaping an evaluation at ANY point leaves later evaluations unaffected.
// Fault enumeration: for every probe and every k = 1..N the k-th call of the injected compiled hook
// hk() panics with a unique value; afterwards the battery (c12_battery.go) must give the answers of a
// fresh interpreter. One child process per (probe, mode); the parent only aggregates.

import (
	"bufio"
	"bytes"
	"encoding/json"
	"fmt"
	"os"
	"os/exec"
	"runtime"
	"sort"
	"strings"
	"sync"
	"syscall"
	"time"

	"gmverif/internal/fw"
)

func init() {
	register("C12", "fault_enumeration", checkC12)
	auxCmds["c12worker"] = c12Worker
}

type c12Task struct {
	Check   string  `json:"check"` // C12 | C13
	Probe   string  `json:"probe"`
	Mode    string  `json:"mode"`              // plain | debugger | step
	Seed    int64   `json:"seed"`              // VERIF_SEED: shifts the rotation of the battery order
	Cap     int64   `json:"cap,omitempty"`     // cap of the counting run (endless probes)
	Async   []int64 `json:"async,omitempty"`   // C13: hook-call targets of the asynchronous deliveries
	Only    int64   `json:"only_k,omitempty"`  // replay: print both sides at this k (sync/panic delivery)
	OnlyT   int64   `json:"only_t,omitempty"`  // replay: print both sides at this async target
	Verbose bool    `json:"verbose,omitempty"` // replay
}

type c12Replay struct {
	Check    string        `json:"check"`
	Probe    string        `json:"probe"`
	Mode     string        `json:"mode"`
	Seed     int64         `json:"seed"`
	Cap      int64         `json:"cap,omitempty"`
	Delivery string        `json:"delivery"` // none | panic | interrupt-sync | interrupt-async
	K        int64         `json:"k,omitempty"`
	Target   int64         `json:"async_target,omitempty"`
	Run      *c12RunResult `json:"aborted_run,omitempty"`
	Diff     []string      `json:"diff,omitempty"`
	Note     string        `json:"note,omitempty"`
	Source   string        `json:"probe_source,omitempty"`
}

type c12Viol struct {
	Tag    string    `json:"tag"`
	Known  string    `json:"known,omitempty"`
	What   string    `json:"what"`
	Replay c12Replay `json:"replay"`
}

type c12TaskResult struct {
	Task        c12Task                   `json:"task"`
	N           int64                     `json:"n"`
	Comparisons int                       `json:"comparisons"`
	Distinct    []string                  `json:"distinct"`
	Cover       map[string]map[string]int `json:"cover"`
	Counters    map[string]int64          `json:"counters"`
	Max         map[string]int64          `json:"max"`
	Viol        []c12Viol                 `json:"viol"`
	Samples     []interface{}             `json:"samples"`
	Inconcl     string                    `json:"inconclusive,omitempty"`
}

func (res *c12TaskResult) cover(table, cell string) {
	if res.Cover[table] == nil {
		res.Cover[table] = map[string]int{}
	}
	res.Cover[table][cell]++
}

func c12Worker(args []string) {
	var t c12Task
	if len(args) < 1 || json.Unmarshal([]byte(args[0]), &t) != nil {
		fmt.Fprintln(os.Stderr, "c12worker: bad task")
		os.Exit(2)
	}
	res := c12RunTask(&t)
	data, _ := json.Marshal(res)
	out := bufio.NewWriter(os.Stdout)
	out.WriteString("RESULT ")
	out.Write(data)
	out.WriteString("\n")
	out.Flush()
}

// c12Pair is the interpreter under test plus its lock-step reference.
type c12Pair struct {
	t           *c12Task
	probe       *c12Probe
	sub, ref    *c12Session
	res         *c12TaskResult
	directFirst bool
	wantChecked bool
	unknown     int // violations not classified as a known finding
}

func (p *c12Pair) rebuild() error {
	var err error
	if p.sub, err = c12NewSession(p.probe, p.t.Mode); err != nil {
		return err
	}
	if p.ref, err = c12NewSession(p.probe, p.t.Mode); err != nil {
		return err
	}
	return nil
}

func (p *c12Pair) violation(tag, known, what string, rep c12Replay) {
	rep.Check, rep.Probe, rep.Mode, rep.Seed, rep.Cap = p.t.Check, p.t.Probe, p.t.Mode, p.t.Seed, p.t.Cap
	if p.t.Verbose && (rep.K != p.t.Only || rep.Target != p.t.OnlyT) {
		// replay: earlier injection points are only re-run to rebuild the history of the replayed case
		p.res.Counters["replay_other_cases_diverging"]++
		if known == "" {
			p.unknown++
		}
		return
	}
	if src, err := c12ProbeSource(p.probe, p.t.Mode == "step"); err == nil {
		rep.Source = src
	}
	p.res.Viol = append(p.res.Viol, c12Viol{Tag: tag, Known: known, What: what, Replay: rep})
	if known == "" {
		p.unknown++
	}
}

// afterRun runs the battery on both interpreters and compares. classify maps a divergence to a known-finding id.
func (p *c12Pair) afterRun(rep c12Replay, verbose bool, classify func(diff []string) string) (ok bool) {
	rot := int(rep.K+rep.Target) + int(p.t.Seed%1000)*7
	if rep.Delivery == "none" {
		rot = 0 // the uninjected run: natural order, so that the answers can be checked against Go's
	}
	// the direct call leads after even injection points, the top-level defer/recover items after odd ones:
	// each would repair what the other looks at
	directFirst := p.directFirst && rep.K%2 == 0
	got := p.sub.battery(directFirst, rot)
	want := p.ref.battery(directFirst, rot)
	p.res.Comparisons += len(got)
	if !p.wantChecked {
		p.wantChecked = true
		if bad := c12CheckWant(want, p.ref.j); len(bad) > 0 {
			p.violation("reference-battery", "", "battery answers of a FRESH interpreter differ from Go's: "+strings.Join(bad, "; "),
				c12Replay{Delivery: "none", Diff: bad, Note: "no probe was run in this interpreter"})
		}
	}
	if verbose {
		fmt.Printf("  aborted run: %+v\n", *rep.Run)
		for i := range got {
			mark := " "
			if got[i] != want[i] {
				mark = "!"
			}
			fmt.Printf("  %s %-28s fresh=%q  after-abort=%q\n", mark, c12Battery[i].Name, want[i], got[i])
		}
	}
	ok = true
	if diff := c12Diff(want, got); len(diff) > 0 {
		ok = false
		rep.Diff = diff
		tag, known := "battery", ""
		for _, g := range got {
			if strings.Contains(g, "signal: interrupt") {
				tag = "stale-interrupt"
			}
		}
		if classify != nil {
			known = classify(diff)
		}
		p.violation(tag, known, fmt.Sprintf("probe %s (%s) %s k=%d target=%d ended %q; then %d battery item(s) differ from a fresh interpreter: %s",
			p.t.Probe, p.t.Mode, rep.Delivery, rep.K, rep.Target, rep.Run.Outcome, len(diff), strings.Join(diff, "; ")), rep)
	}
	if missing := p.sub.missingNames(); len(missing) > 0 {
		ok = false
		p.violation("definitions-lost", "", fmt.Sprintf("probe %s (%s) %s k=%d: definitions no longer resolve: %v", p.t.Probe, p.t.Mode, rep.Delivery, rep.K, missing), rep)
	}
	if !ok {
		// resynchronise: later injection points start from a clean pair again
		if err := p.rebuild(); err != nil {
			p.res.Inconcl = err.Error()
		}
	}
	return ok
}

func c12HasTag(p *c12Probe, tag string) bool {
	for _, t := range p.Tags {
		if t == tag {
			return true
		}
	}
	return false
}

func c12RunTask(t *c12Task) *c12TaskResult {
	res := &c12TaskResult{Task: *t, Cover: map[string]map[string]int{}, Counters: map[string]int64{}, Max: map[string]int64{}}
	list := c12Probes
	if t.Check == "C13" {
		list = c13Probes
	}
	probe := c12FindProbe(list, t.Probe)
	if probe == nil {
		res.Inconcl = "unknown probe " + t.Probe
		return res
	}
	p := &c12Pair{t: t, probe: probe, res: res, directFirst: t.Check == "C12" && t.Mode != "step"}
	if err := p.rebuild(); err != nil {
		res.Inconcl = err.Error()
		return res
	}
	if t.Check == "C13" {
		c13RunTask(p)
		return res
	}
	// counting run (k = 0: nothing injected), followed by the battery like every other run
	cnt := p.sub.runProbe(probe.invoke(), func(h *c12Hook) { h.mode = c12Count })
	res.N = cnt.Hooks
	res.cover("outcome", "uninjected:"+cnt.Outcome)
	p.afterRun(c12Replay{Delivery: "none", Run: cnt}, t.Verbose && t.Only == 0, nil)
	if cnt.Stop != "" {
		res.Inconcl = fmt.Sprintf("probe %s does not terminate by itself (%s after %d hook calls)", t.Probe, cnt.Stop, cnt.Hooks)
		return res
	}
	for k := int64(1); k <= res.N && res.Inconcl == "" && p.unknown < 5 && (t.Only == 0 || k <= t.Only); k++ {
		rr := p.sub.runProbe(probe.invoke(), func(h *c12Hook) { h.mode = c12Panic; h.k = k })
		rep := c12Replay{Delivery: "panic", K: k, Run: rr}
		verbose := t.Verbose && t.Only == k
		if !rr.Fired {
			res.Counters["hook_call_k_not_reached"]++
		} else {
			res.Distinct = append(res.Distinct, fmt.Sprintf("%s|%s|%d", t.Probe, t.Mode, k))
			res.cover("outcome", rr.Outcome)
			res.cover("inject_context", rr.Ctx)
			res.cover("state_after_abort", rr.State.shape())
			if idle := (c12State{CurrEnv: rr.State.CurrEnv}); t.Check == "C12" && (rr.State.PanicFun != idle.PanicFun || rr.State.DeferOfFun != idle.DeferOfFun) {
				// the per-goroutine defer/panic bookkeeping still refers to the aborted evaluation: a later recover()
				// in a frame that happens to match would return the old panic value
				p.violation("run-state-not-idle-after-abort", "", fmt.Sprintf("probe %s (%s) aborted at hook call %d: interpreter bookkeeping is %s, a fresh interpreter's is %s",
					t.Probe, t.Mode, k, rr.State.shape(), idle.shape()), rep)
			}
			for _, tag := range probe.Tags {
				res.cover("probe_feature", tag)
			}
		}
		switch {
		case strings.HasPrefix(rr.Outcome, "escaped-other") && !c12HasTag(probe, "escaping-own-panic"),
			rr.Outcome == "interrupted", rr.Outcome == "escaped-signal", strings.HasPrefix(rr.Outcome, "stopped"):
			p.violation("probe-unexpected-panic", "", fmt.Sprintf("probe %s (%s) with hook call %d panicking ended with %q (%s): neither the injected value nor a panic of the probe's own",
				t.Probe, t.Mode, k, rr.Panic, rr.Outcome), rep)
		}
		ok := p.afterRun(rep, verbose, c12Classify)
		if ok && rr.Fired && len(res.Samples) < 2 && k%7 == 3 {
			res.Samples = append(res.Samples, map[string]interface{}{"probe": t.Probe, "mode": t.Mode, "k": k, "of": res.N,
				"aborted_run": rr, "battery_items_equal": len(c12Battery)})
		}
	}
	res.Counters["injection_points"] += int64(len(res.Distinct))
	return res
}

// c12Classify recognises known C12 findings by the shape of the divergence. None so far.
func c12Classify(diff []string) string {
	return ""
}

// ---------------------------------------------------------------------------------------------
// parent side

func c12RunTasks(r *fw.Run, tasks []c12Task) []*c12TaskResult {
	results := make([]*c12TaskResult, len(tasks))
	for i := range tasks {
		tasks[i].Seed = r.Seed
	}
	par := runtime.NumCPU()
	if par > 16 {
		par = 16
	}
	if par < 2 {
		par = 2
	}
	sem := make(chan struct{}, par)
	var wg sync.WaitGroup
	for i := range tasks {
		wg.Add(1)
		go func(i int) {
			defer wg.Done()
			sem <- struct{}{}
			defer func() { <-sem }()
			results[i] = c12Spawn(&tasks[i])
		}(i)
	}
	wg.Wait()
	return results
}

func c12Spawn(t *c12Task) *c12TaskResult {
	data, _ := json.Marshal(t)
	cmd := exec.Command(os.Args[0], "c12worker", string(data))
	var stdout, stderr bytes.Buffer
	cmd.Stdout, cmd.Stderr = &stdout, &stderr
	// two threads per worker: the interpreter's goroutine and the asynchronous deliverer of C13
	cmd.Env = append(os.Environ(), "GOMAXPROCS=2")
	cmd.SysProcAttr = &syscall.SysProcAttr{Pdeathsig: syscall.SIGKILL} // never outlive the parent
	// watchdog: a worker that does not come back is a problem of this run (reported as inconclusive), never a verdict
	timer := time.AfterFunc(20*time.Minute, func() {
		if cmd.Process != nil {
			cmd.Process.Kill()
		}
	})
	err := cmd.Run()
	timer.Stop()
	for _, line := range strings.Split(stdout.String(), "\n") {
		if strings.HasPrefix(line, "RESULT ") {
			var res c12TaskResult
			if e := json.Unmarshal([]byte(line[7:]), &res); e == nil {
				return &res
			}
		}
	}
	// a crash of the worker process is a problem of the harness run, not a verdict
	return &c12TaskResult{Task: *t, Inconcl: fmt.Sprintf("worker for probe %s (%s) gave no result: %v; stderr: %s", t.Probe, t.Mode, err, fw.Clip(stderr.String(), 1500))}
}

// c12Aggregate folds the workers' results into the run.
func c12Aggregate(r *fw.Run, results []*c12TaskResult) {
	sort.SliceStable(results, func(i, j int) bool { return results[i].Task.Probe < results[j].Task.Probe })
	perProbe := map[string]interface{}{}
	maxima := map[string]int64{}
	for _, res := range results {
		for name, n := range res.Max {
			if n > maxima[name] {
				maxima[name] = n
			}
		}
		if res.Inconcl != "" {
			r.Inconclusive(res.Inconcl)
		}
		r.Eval(res.Comparisons)
		for _, d := range res.Distinct {
			r.Distinct(d)
		}
		for table, m := range res.Cover {
			for cell, n := range m {
				for i := 0; i < n; i++ {
					r.Cover(table, cell)
				}
			}
		}
		for name, n := range res.Counters {
			r.Count(name, n)
		}
		for _, s := range res.Samples {
			r.Sample(s)
		}
		perProbe[res.Task.Probe+"/"+res.Task.Mode] = map[string]interface{}{"hook_calls": res.N, "faults_injected": len(res.Distinct)}
		for _, v := range res.Viol {
			if v.Known != "" {
				r.Known(v.Known, v.Replay, v.What)
			} else {
				r.Violation(v.Tag, v.Replay, v.What)
			}
		}
	}
	r.Extra("per_probe", perProbe)
	if len(maxima) > 0 {
		r.Extra("maxima", maxima)
	}
}

func c12Replayed(r *fw.Run) bool {
	path := fw.ReplayArg()
	if path == "" {
		return false
	}
	var rep c12Replay
	if err := fw.LoadReplay(path, &rep); err != nil {
		panic(err)
	}
	t := &c12Task{Check: r.Prop, Probe: rep.Probe, Mode: rep.Mode, Seed: rep.Seed, Cap: rep.Cap, Only: rep.K, OnlyT: rep.Target, Verbose: true}
	if rep.Delivery == "interrupt-async" {
		t.Async = []int64{rep.Target}
	}
	fmt.Printf("replay: probe %s mode %s delivery %s k=%d target=%d (all earlier injection points of the probe are re-run first, as in the original run)\n%s\n",
		rep.Probe, rep.Mode, rep.Delivery, rep.K, rep.Target, rep.Source)
	res := c12RunTask(t)
	c12Aggregate(r, []*c12TaskResult{res})
	r.SetMinDistinct(0)
	return true
}

func checkC12(r *fw.Run) {
	r.SetRule("probes = hand-written goroutine-free programs (loops, calls, closures, defer/recover/re-panic, panics in deferred calls, callbacks from sort/strings/fmt/sync into interpreted closures, nested Eval) with the compiled hook hk() inserted mechanically between all statements; " +
		"a case = (probe, interpreter mode, k): the k-th dynamic hook call panics with a unique value, for EVERY k up to the N calls of an uninjected run, all in one interpreter; distinct = cases whose k-th call was actually reached; " +
		"oracle = afterwards a fixed battery of " + fmt.Sprint(len(c12Battery)) + " evaluations (defer order, recover at depth 1/2, recover without panic, fresh panic value, named results, closure state, nested Eval, redefinition, single-step call depth, direct call from Go) gives item by item the answers of a lock-step reference interpreter that never ran the probe")
	r.Assume("the reference interpreter (same definitions, same battery history, never ran a probe) is a valid stand-in for 'had the aborted evaluation never run'; its first battery run is additionally checked against the answers of compiled Go")
	r.Assume("after an aborted evaluation the defer/panic bookkeeping of the goroutine's Run (DeferOfFun, PanicFun) must be idle, as in a new interpreter: a stale PanicFun makes a later recover() in a matching frame return the old panic value; the other Run fields are recorded (table state_after_abort), not asserted")
	if c12Replayed(r) {
		return
	}
	var tasks []c12Task
	for i := range c12Probes {
		p := &c12Probes[i]
		if !r.Thorough() && !p.Quick {
			continue
		}
		tasks = append(tasks, c12Task{Check: "C12", Probe: p.Name, Mode: "plain"})
		if r.Thorough() {
			tasks = append(tasks, c12Task{Check: "C12", Probe: p.Name, Mode: "debugger"})
			tasks = append(tasks, c12Task{Check: "C12", Probe: p.Name, Mode: "step"})
		}
	}
	results := c12RunTasks(r, tasks)
	c12Aggregate(r, results)
	r.SetExhaustive(true) // every k of every selected probe
	r.Extra("probes", len(tasks))
}
