package main

// Compiled helpers for property C11. This very file is also written into the compiled reference
// module and parsed by the validity gate, so both sides call the same compiled code.

import (
	"errors"
	"fmt"
	"io"
	"sort"
	"strings"
)

// iopStringer uses an interpreted type through fmt.Stringer.
func iopStringer(s fmt.Stringer) string { return fmt.Sprintf("%v|%s|%q|%d", s, s, s.String(), len(s.String())) }

// iopError uses an interpreted type through error, including wrapping.
func iopError(e error) string {
	w := fmt.Errorf("w: %w", e)
	return fmt.Sprint(e) + "|" + w.Error() + "|" + fmt.Sprint(errors.Unwrap(w) == e, errors.Is(w, e), errors.Is(e, io.EOF))
}

// iopRead drains an interpreted io.Reader with a buffer of the given size.
func iopRead(r io.Reader, bufsize int) (string, int, error) {
	buf := make([]byte, bufsize)
	var sb strings.Builder
	calls := 0
	for calls < 1000 {
		n, err := r.Read(buf)
		calls++
		sb.Write(buf[:n])
		if err == io.EOF {
			return sb.String(), calls, nil
		}
		if err != nil {
			return sb.String(), calls, err
		}
	}
	return sb.String(), calls, errors.New("too many calls")
}

// iopWrite writes the pieces to an interpreted io.Writer.
func iopWrite(w io.Writer, pieces []string) (total int, errs int) {
	for _, p := range pieces {
		n, err := w.Write([]byte(p))
		total += n
		if err != nil {
			errs++
		}
	}
	return
}

// iopSort uses an interpreted type through sort.Interface.
func iopSort(s sort.Interface) (int, bool) {
	sort.Sort(s)
	return s.Len(), sort.IsSorted(s)
}

// iopCallN calls an interpreted function n times from compiled code.
func iopCallN(n int, f func(int) int) []int {
	out := make([]int, n)
	for i := range out {
		out[i] = f(i)
	}
	return out
}

// iopCallV calls an interpreted variadic function.
func iopCallV(f func(string, ...int) string) string {
	return f("a") + "/" + f("b", 1) + "/" + f("c", 1, 2, 3) + "/" + f("d", []int{7, 8}...)
}

// iopCallM calls an interpreted function with several results.
func iopCallM(f func(int) (int, string, error)) string {
	var sb strings.Builder
	for i := 0; i < 3; i++ {
		a, b, err := f(i)
		fmt.Fprintf(&sb, "%d,%s,%v;", a, b, err)
	}
	return sb.String()
}

// iopCallP calls an interpreted function that may panic; function and deferred recover are both compiled.
func iopCallP(f func()) (res string) {
	defer func() {
		if r := recover(); r != nil {
			res = fmt.Sprintf("recovered %T %v", r, r)
		}
	}()
	f()
	return "returned"
}

// iopCallI passes values through interface{} parameters and results.
func iopCallI(f func(interface{}) interface{}, vs []interface{}) []interface{} {
	out := make([]interface{}, len(vs))
	for i, v := range vs {
		out[i] = f(v)
	}
	return out
}

// iopAdder returns a compiled closure to interpreted code.
func iopAdder(k int) func(int) int { return func(x int) int { k += x; return k } }

// iopApply calls a slice of interpreted functions.
func iopApply(fs []func(int) int, x int) int {
	for _, f := range fs {
		x = f(x)
	}
	return x
}

// iopLookup calls interpreted functions stored in a map.
func iopLookup(m map[string]func(int) int, k string, x int) int {
	if f := m[k]; f != nil {
		return f(x)
	}
	return -1
}

// iopField calls an interpreted function stored in a struct field.
func iopField(s struct {
	F func(int) int
	N int
}) int {
	return s.F(s.N)
}

// iopChan receives interpreted functions from a channel and calls them.
func iopChan(ch chan func() int) int {
	sum := 0
	for f := range ch {
		sum = sum*10 + f()
	}
	return sum
}

// iopCompose returns a compiled closure calling two interpreted functions.
func iopCompose(f func(int) int, g func(int) string) func(int) string {
	return func(x int) string { return g(f(x)) }
}

// iopPtr lets compiled code write through pointers owned by interpreted code.
func iopPtr(p *int, q *string, s []int, m map[string]int) {
	*p += 10
	*q += "!"
	for i := range s {
		s[i] *= 2
	}
	m["seen"] = len(s)
}

// iopTypes round-trips values of assorted kinds through compiled code.
func iopTypes(b bool, i8 int8, u16 uint16, i64 int64, f32 float32, c complex128, s string, bs []byte, a [3]int, r rune) (bool, int8, uint16, int64, float32, complex128, string, []byte, [3]int, rune) {
	a[1]++
	return !b, i8 + 1, u16 + 1, i64 + 1, f32 * 2, c * 2i, s + "z", append(bs, 'q'), a, r + 1
}
