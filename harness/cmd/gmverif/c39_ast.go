package main

// C39: position-insensitive structural comparison of Go files, modulo the unwrapping that gomacro's
// macroexpansion phase performs on every node (base.UnwrapTrivialAst): parentheses are dropped and a
// block with exactly one statement that declares nothing is replaced by that statement.

import (
	"fmt"
	"go/ast"
	"go/token"
	"reflect"
	"strings"
)

var (
	c39ExprType  = reflect.TypeOf((*ast.Expr)(nil)).Elem()
	c39StmtType  = reflect.TypeOf((*ast.Stmt)(nil)).Elem()
	c39PosType   = reflect.TypeOf(token.NoPos)
	c39SkipTypes = map[reflect.Type]bool{
		reflect.TypeOf((*ast.Object)(nil)):       true,
		reflect.TypeOf((*ast.Scope)(nil)):        true,
		reflect.TypeOf((*ast.CommentGroup)(nil)): true,
		reflect.TypeOf([]*ast.CommentGroup(nil)): true,
		reflect.TypeOf((*ast.Comment)(nil)):      true,
	}
)

func c39TrivialBlock(b *ast.BlockStmt) bool {
	if len(b.List) != 1 {
		return false
	}
	switch s := b.List[0].(type) {
	case *ast.DeclStmt:
		return false
	case *ast.AssignStmt:
		return s.Tok != token.DEFINE
	}
	return true
}

// c39Normalize rewrites the tree under v (addressable) into the canonical unwrapped form.
func c39Normalize(v reflect.Value) {
	switch v.Kind() {
	case reflect.Interface:
		if v.IsNil() {
			return
		}
		if v.Type() == c39ExprType {
			for {
				p, ok := v.Interface().(*ast.ParenExpr)
				if !ok {
					break
				}
				v.Set(reflect.ValueOf(p.X))
			}
		}
		if v.Type() == c39StmtType {
			for {
				b, ok := v.Interface().(*ast.BlockStmt)
				if !ok || !c39TrivialBlock(b) {
					break
				}
				v.Set(reflect.ValueOf(b.List[0]))
			}
			// an expression statement may carry parentheses of its own
			if es, ok := v.Interface().(*ast.ExprStmt); ok {
				for {
					p, ok := es.X.(*ast.ParenExpr)
					if !ok {
						break
					}
					es.X = p.X
				}
			}
		}
		if v.IsNil() {
			return
		}
		c39Normalize(v.Elem())
	case reflect.Ptr:
		if v.IsNil() || c39SkipTypes[v.Type()] {
			return
		}
		c39Normalize(v.Elem())
		if b, ok := v.Interface().(*ast.BlockStmt); ok {
			// { { a; b } } is { a; b }
			for len(b.List) == 1 {
				inner, ok := b.List[0].(*ast.BlockStmt)
				if !ok {
					break
				}
				b.List = inner.List
			}
		}
	case reflect.Struct:
		for i := 0; i < v.NumField(); i++ {
			f := v.Field(i)
			if f.CanSet() {
				c39Normalize(f)
			}
		}
	case reflect.Slice:
		if c39SkipTypes[v.Type()] {
			return
		}
		for i := 0; i < v.Len(); i++ {
			c39Normalize(v.Index(i))
		}
		if list, ok := v.Interface().([]ast.Stmt); ok && v.CanSet() {
			// explicit empty statements (a lone ';') carry no meaning and are not kept by the parser fork
			var keep []ast.Stmt
			for _, s := range list {
				if _, empty := s.(*ast.EmptyStmt); !empty {
					keep = append(keep, s)
				}
			}
			if len(keep) != len(list) {
				v.Set(reflect.ValueOf(keep))
			}
		}
	}
}

type c39Differ struct {
	diff string
}

func (d *c39Differ) fail(path, format string, args ...interface{}) bool {
	if d.diff == "" {
		d.diff = path + ": " + fmt.Sprintf(format, args...)
	}
	return false
}

func (d *c39Differ) equal(a, b reflect.Value, path string) bool {
	if a.IsValid() != b.IsValid() {
		return d.fail(path, "one side missing")
	}
	if !a.IsValid() {
		return true
	}
	if a.Type() != b.Type() {
		return d.fail(path, "%v vs %v", a.Type(), b.Type())
	}
	if c39SkipTypes[a.Type()] {
		return true
	}
	switch a.Kind() {
	case reflect.Interface, reflect.Ptr:
		if a.IsNil() != b.IsNil() {
			return d.fail(path, "nil vs non-nil (%v)", a.Type())
		}
		if a.IsNil() {
			return true
		}
		if a.Kind() == reflect.Interface && a.Elem().Type() != b.Elem().Type() {
			return d.fail(path, "%v vs %v", a.Elem().Type(), b.Elem().Type())
		}
		return d.equal(a.Elem(), b.Elem(), path)
	case reflect.Struct:
		t := a.Type()
		for i := 0; i < a.NumField(); i++ {
			f := t.Field(i)
			fp := path + "." + f.Name
			if f.Type == c39PosType {
				// positions do not matter, except where their being set carries meaning
				if f.Name == "Ellipsis" || f.Name == "Assign" {
					if (a.Field(i).Int() != 0) != (b.Field(i).Int() != 0) {
						return d.fail(fp, "set on one side only")
					}
				}
				continue
			}
			if !d.equal(a.Field(i), b.Field(i), fp) {
				return false
			}
		}
		return true
	case reflect.Slice:
		if a.Len() != b.Len() {
			return d.fail(path, "%d vs %d elements", a.Len(), b.Len())
		}
		for i := 0; i < a.Len(); i++ {
			if !d.equal(a.Index(i), b.Index(i), fmt.Sprintf("%s[%d]", path, i)) {
				return false
			}
		}
		return true
	case reflect.String:
		if a.String() != b.String() {
			return d.fail(path, "%q vs %q", a.String(), b.String())
		}
		return true
	case reflect.Bool:
		if a.Bool() != b.Bool() {
			return d.fail(path, "%v vs %v", a.Bool(), b.Bool())
		}
		return true
	case reflect.Int, reflect.Int8, reflect.Int16, reflect.Int32, reflect.Int64:
		if a.Int() != b.Int() {
			return d.fail(path, "%v vs %v", a.Interface(), b.Interface())
		}
		return true
	case reflect.Uint, reflect.Uint8, reflect.Uint16, reflect.Uint32, reflect.Uint64:
		if a.Uint() != b.Uint() {
			return d.fail(path, "%v vs %v", a.Interface(), b.Interface())
		}
		return true
	}
	return true
}

type c39FileShape struct {
	Pkg     string
	Imports []string   // `alias "path"` in order
	Decls   []ast.Decl // non-import declarations in order
}

func c39Shape(f *ast.File) c39FileShape {
	sh := c39FileShape{Pkg: f.Name.Name}
	for _, d := range f.Decls {
		if g, ok := d.(*ast.GenDecl); ok && g.Tok == token.IMPORT {
			for _, s := range g.Specs {
				is := s.(*ast.ImportSpec)
				name := ""
				if is.Name != nil {
					name = is.Name.Name + " "
				}
				sh.Imports = append(sh.Imports, name+is.Path.Value)
			}
			continue
		}
		sh.Decls = append(sh.Decls, d)
	}
	return sh
}

func c39DeclName(d ast.Decl) string {
	switch d := d.(type) {
	case *ast.FuncDecl:
		if d.Recv != nil {
			return "method " + d.Name.Name
		}
		return "func " + d.Name.Name
	case *ast.GenDecl:
		var names []string
		for _, s := range d.Specs {
			switch s := s.(type) {
			case *ast.ValueSpec:
				for _, n := range s.Names {
					names = append(names, n.Name)
				}
			case *ast.TypeSpec:
				names = append(names, s.Name.Name)
			}
		}
		return d.Tok.String() + " " + strings.Join(names, ",")
	}
	return fmt.Sprintf("%T", d)
}

// c39CompareShapes compares package name, import list and declaration list (normalizing both sides). "" = equal.
func c39CompareShapes(want, got c39FileShape) string {
	if want.Pkg != got.Pkg {
		return fmt.Sprintf("package clause: source %q, written %q", want.Pkg, got.Pkg)
	}
	if strings.Join(want.Imports, ";") != strings.Join(got.Imports, ";") {
		return fmt.Sprintf("imports: source %v, written %v", want.Imports, got.Imports)
	}
	if len(want.Decls) != len(got.Decls) {
		var wn, gn []string
		for _, d := range want.Decls {
			wn = append(wn, c39DeclName(d))
		}
		for _, d := range got.Decls {
			gn = append(gn, c39DeclName(d))
		}
		return fmt.Sprintf("declaration list: source has %d %v, written has %d %v", len(want.Decls), wn, len(got.Decls), gn)
	}
	for i := range want.Decls {
		a := reflect.ValueOf(&want.Decls[i]).Elem()
		b := reflect.ValueOf(&got.Decls[i]).Elem()
		c39Normalize(a)
		c39Normalize(b)
		var d c39Differ
		if !d.equal(a, b, "") {
			return fmt.Sprintf("declaration %d (%s) differs at %s", i, c39DeclName(want.Decls[i]), d.diff)
		}
	}
	return ""
}

// c39ExposedCompositeLit reports whether some control-clause header of the file would, with all
// parentheses dropped, contain a composite literal of a plain type name outside any bracket
// (Go's parsing ambiguity: `if T{1} == x {`). This is the input shape of finding C39-paren-composite-literal.
// c39ParenRecvChan reports whether the file has parentheses that the grammar requires around a receive-only
// channel type: the conversion (<-chan T)(x) or the channel type chan (<-chan T). Second input shape of C39-paren-unwrap.
func c39ParenRecvChan(f *ast.File) bool {
	isRecv := func(e ast.Expr) bool {
		p, ok := e.(*ast.ParenExpr)
		if !ok {
			return false
		}
		c, ok := p.X.(*ast.ChanType)
		return ok && c.Dir == ast.RECV
	}
	found := false
	ast.Inspect(f, func(n ast.Node) bool {
		switch n := n.(type) {
		case *ast.CallExpr:
			found = found || isRecv(n.Fun)
		case *ast.ChanType:
			found = found || isRecv(n.Value)
		}
		return !found
	})
	return found
}

func c39ExposedCompositeLit(f *ast.File) bool {
	var exposed func(e ast.Expr) bool
	exposed = func(e ast.Expr) bool {
		switch e := e.(type) {
		case *ast.ParenExpr:
			return exposed(e.X)
		case *ast.CompositeLit:
			switch e.Type.(type) {
			case *ast.Ident, *ast.SelectorExpr:
				return true
			}
		case *ast.BinaryExpr:
			return exposed(e.X) || exposed(e.Y)
		case *ast.UnaryExpr:
			return exposed(e.X)
		case *ast.StarExpr:
			return exposed(e.X)
		case *ast.SelectorExpr:
			return exposed(e.X)
		case *ast.IndexExpr:
			return exposed(e.X)
		case *ast.SliceExpr:
			return exposed(e.X)
		case *ast.CallExpr:
			return exposed(e.Fun)
		case *ast.TypeAssertExpr:
			return exposed(e.X)
		}
		return false
	}
	exprs := func(es ...ast.Expr) bool {
		for _, e := range es {
			if e != nil && exposed(e) {
				return true
			}
		}
		return false
	}
	stmt := func(s ast.Stmt) bool {
		switch s := s.(type) {
		case *ast.AssignStmt:
			return exprs(s.Lhs...) || exprs(s.Rhs...)
		case *ast.ExprStmt:
			return exprs(s.X)
		case *ast.IncDecStmt:
			return exprs(s.X)
		case *ast.SendStmt:
			return exprs(s.Chan, s.Value)
		}
		return false
	}
	found := false
	ast.Inspect(f, func(n ast.Node) bool {
		switch n := n.(type) {
		case *ast.IfStmt:
			found = found || stmt(n.Init) || exprs(n.Cond)
		case *ast.ForStmt:
			found = found || stmt(n.Init) || exprs(n.Cond) || stmt(n.Post)
		case *ast.RangeStmt:
			found = found || exprs(n.Key, n.Value, n.X)
		case *ast.SwitchStmt:
			found = found || stmt(n.Init) || exprs(n.Tag)
		case *ast.TypeSwitchStmt:
			found = found || stmt(n.Init) || stmt(n.Assign)
		}
		return !found
	})
	return found
}
