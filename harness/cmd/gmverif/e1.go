package main

// E1 difftrace engine: the same generated program is run by the fast interpreter (in child
// processes) and as compiled Go (one reference binary per batch); both sides call the same
// rec() trace hook; traces are compared event by event.

import (
	"bufio"
	"bytes"
	"encoding/json"
	"fmt"
	"go/ast"
	"go/importer"
	"go/parser"
	"go/token"
	"go/types"
	"io"
	"os"
	"os/exec"
	"path/filepath"
	"regexp"
	"runtime"
	"sort"
	"strconv"
	"strings"
	"sync"
	"time"

	"gmverif/internal/fw"
	"gmverif/internal/tr"
)

// Prog is one generated program. Top-level identifiers are written with a leading '§'
// (e.g. `func §P()`, `type §T struct{}`): the interpreter sees them without the mark, the
// compiled batch with a per-program prefix, so that many programs share one package.
type Prog struct {
	ID      string            `json:"id"`
	Imports []string          `json:"imports,omitempty"`
	Src     string            `json:"src"`             // declarations; must define func §P()
	RefSrc  string            `json:"ref_src,omitempty"` // if set, the compiled side (and the gate) use this text instead of Src
	Chunks  []string          `json:"chunks,omitempty"` // if set, the interpreter evaluates these pieces of Src one by one (REPL style) instead of Src as a whole
	Steps   []string          `json:"steps,omitempty"` // REPL mode: evaluated one by one by the interpreter after Src
	RefBody string            `json:"ref_body,omitempty"` // REPL mode: body of §P for the compiled side (defaults to Steps joined)
	Cell    string            `json:"cell,omitempty"`  // coverage cell description
	Mode    map[string]string `json:"mode,omitempty"`  // interpreter-side options (poison, options, classic, ...)
	Reject  bool              `json:"reject,omitempty"` // set by the gate: Go rejects this program
	GateErr string            `json:"gate_err,omitempty"`
}

type Result struct {
	ID         string   `json:"id"`
	Events     []string `json:"events"`
	End        string   `json:"end"` // "ret" | "panic:<class>" | "compile-error" | "crash"
	CompileErr string   `json:"compile_err,omitempty"`
	Detail     string   `json:"detail,omitempty"`
	Hooks      int      `json:"hooks,omitempty"`
	Extra      map[string]string `json:"extra,omitempty"`
}

const e1Prelude = "func rec(tag int, v ...interface{}) {}\nfunc pcl(r interface{}) string { return \"\" }\nfunc hk() {}\nfunc nc(v interface{}) interface{} { return v }\nfunc par(n int, f func(int) int) int { return 0 }\n"

func (p *Prog) plainSrc() string { return strings.ReplaceAll(p.Src, "§", "") }

func (p *Prog) refSrc() string {
	if p.RefSrc != "" {
		return p.RefSrc
	}
	return p.Src
}

func (p *Prog) refBody() string {
	if p.RefBody != "" {
		return p.RefBody
	}
	return strings.Join(p.Steps, "\n")
}

// ---------------------------------------------------------------- validity gate (go/types)

func e1GateOne(p *Prog, imp types.Importer) {
	var b strings.Builder
	b.WriteString("package p\n")
	for _, i := range p.Imports {
		fmt.Fprintf(&b, "import %q\n", i)
	}
	b.WriteString(e1Prelude)
	b.WriteString(strings.ReplaceAll(p.refSrc(), "§", ""))
	if len(p.Steps) > 0 {
		b.WriteString("\nfunc P() {\n" + strings.ReplaceAll(p.refBody(), "§", "") + "\n}\n")
	}
	fset := token.NewFileSet()
	f, err := parser.ParseFile(fset, "p.go", b.String(), 0)
	if err != nil {
		p.Reject, p.GateErr = true, "syntax: "+err.Error()
		return
	}
	files := []*ast.File{f}
	if p.Mode["interop"] != "" {
		f2, err := parser.ParseFile(fset, "interop.go", strings.Replace(interopSrc, "package main", "package p", 1), 0)
		if err != nil {
			panic(err)
		}
		files = append(files, f2)
	}
	var first error
	conf := types.Config{GoVersion: "go1.18", Importer: imp, Error: func(e error) {
		if first == nil {
			first = e
		}
	}}
	conf.Check("p", fset, files, nil)
	if first != nil {
		p.Reject, p.GateErr = true, first.Error()
	}
}

func e1Gate(progs []*Prog) {
	var wg sync.WaitGroup
	n := runtime.NumCPU()
	ch := make(chan *Prog, 256)
	for w := 0; w < n; w++ {
		wg.Add(1)
		go func() {
			defer wg.Done()
			imp := importer.Default()
			for p := range ch {
				e1GateOne(p, imp)
			}
		}()
	}
	for _, p := range progs {
		ch <- p
	}
	close(ch)
	wg.Wait()
}

// ---------------------------------------------------------------- compiled reference

var goEnv = append(os.Environ(), "GOFLAGS=-mod=mod", "GOPROXY=off", "GOSUMDB=off", "GOTOOLCHAIN=local")

const refMainTmpl = `package main

import (
	"bufio"
	"encoding/json"
	"os"
	"strconv"
	"sync"

	"ref/tr"
)

var cur *tr.Trace

var recMu sync.Mutex

func rec(tag int, v ...interface{}) { recMu.Lock(); cur.Rec(tag, v...); recMu.Unlock() }
func pcl(r interface{}) string     { return tr.PanicClass(r) }
func hk()                          { cur.Hooks++ }
func nc(v interface{}) interface{} { return tr.NoCap{V: v} }

// par invokes a callback from n goroutines concurrently and returns the sum of its results.
func par(n int, f func(int) int) int {
	res := make([]int, n)
	done := make(chan bool)
	start := make(chan struct{})
	for i := 0; i < n; i++ {
		go func(i int) {
			<-start
			res[i] = f(i)
			done <- true
		}(i)
	}
	close(start)
	for i := 0; i < n; i++ {
		<-done
	}
	sum := 0
	for _, x := range res {
		sum += x
	}
	return sum
}

type result struct {
	ID     string   ` + "`json:\"id\"`" + `
	Events []string ` + "`json:\"events\"`" + `
	End    string   ` + "`json:\"end\"`" + `
	Hooks  int      ` + "`json:\"hooks,omitempty\"`" + `
}

type entry struct {
	id string
	f  func()
}

var table []entry

func runOne(e entry, w *bufio.Writer) {
	cur = &tr.Trace{}
	res := result{ID: e.id, End: "ret"}
	func() {
		defer func() {
			if r := recover(); r != nil {
				res.End = "panic:" + tr.PanicClass(r)
			}
		}()
		e.f()
	}()
	res.Events = cur.Events
	res.Hooks = cur.Hooks
	data, _ := json.Marshal(res)
	w.Write(data)
	w.WriteByte('\n')
	w.Flush()
}

func main() {
	start := 0
	if len(os.Args) > 1 {
		start, _ = strconv.Atoi(os.Args[1])
	}
	w := bufio.NewWriterSize(os.Stdout, 1<<16)
	for i := start; i < len(table); i++ {
		os.Stderr.WriteString("START " + strconv.Itoa(i) + "\n")
		runOne(table[i], w)
	}
}
`

type refBatch struct {
	dir     string
	progs   []*Prog
	lineOf  map[string][]lineSpan // file -> spans
	Dropped []string
}

type lineSpan struct {
	from, to int
	idx      int
}

var identPrefixRe = regexp.MustCompile(`§`)

func refPrefix(i int) string { return "p" + strconv.Itoa(i) + "_" }

// refWrite writes the reference module for the given programs (skipping idx in skip).
func refWrite(dir string, progs []*Prog, skip map[int]bool) map[string][]lineSpan {
	os.MkdirAll(filepath.Join(dir, "tr"), 0o755)
	os.WriteFile(filepath.Join(dir, "go.mod"), []byte("module ref\n\ngo 1.18\n"), 0o644)
	os.WriteFile(filepath.Join(dir, "tr", "tr.go"), []byte(tr.Source), 0o644)
	os.WriteFile(filepath.Join(dir, "main.go"), []byte(refMainTmpl), 0o644)
	os.WriteFile(filepath.Join(dir, "interop.go"), []byte(interopSrc), 0o644)
	spans := map[string][]lineSpan{}
	// group programs by import set so each file has exactly the imports its programs use
	const perFile = 48
	type fileAcc struct {
		imports []string
		body    strings.Builder
		lines   int
		reg     strings.Builder
		n       int
		name    string
	}
	var files []*fileAcc
	curOf := map[string]*fileAcc{}
	old, _ := filepath.Glob(filepath.Join(dir, "progs_*.go"))
	for _, f := range old {
		os.Remove(f)
	}
	for i, p := range progs {
		if skip[i] {
			continue
		}
		ims := append([]string{}, p.Imports...)
		sort.Strings(ims)
		key := strings.Join(ims, ",")
		cur := curOf[key]
		if cur == nil || cur.n >= perFile {
			cur = &fileAcc{imports: ims, name: fmt.Sprintf("progs_%04d.go", len(files))}
			files = append(files, cur)
			curOf[key] = cur
		}
		src := p.refSrc()
		if len(p.Steps) > 0 {
			src += "\nfunc §P() {\n" + p.refBody() + "\n}\n"
		}
		src = strings.ReplaceAll(src, "§", refPrefix(i))
		text := fmt.Sprintf("// ---- %s\n%s\n", p.ID, src)
		nl := strings.Count(text, "\n")
		spans[cur.name] = append(spans[cur.name], lineSpan{cur.lines, cur.lines + nl, i})
		cur.lines += nl
		cur.body.WriteString(text)
		fmt.Fprintf(&cur.reg, "\ttable = append(table, entry{%q, %sP})\n", p.ID, refPrefix(i))
		cur.n++
	}
	for _, f := range files {
		var b strings.Builder
		b.WriteString("package main\n")
		hdr := 1
		for _, im := range f.imports {
			fmt.Fprintf(&b, "import %q\n", im)
			hdr++
		}
		for k, sp := range spans[f.name] {
			spans[f.name][k] = lineSpan{sp.from + hdr, sp.to + hdr, sp.idx}
		}
		b.WriteString(f.body.String())
		b.WriteString("\nfunc init() {\n" + f.reg.String() + "}\n")
		os.WriteFile(filepath.Join(dir, f.name), []byte(b.String()), 0o644)
	}
	return spans
}

var errLineRe = regexp.MustCompile(`(progs_\d+\.go):(\d+):`)

// refRun builds and runs the compiled reference. Programs that fail to build are dropped
// (reported in dropped); programs that kill the binary are reported with End "crash".
func refRun(name string, progs []*Prog) (map[string]*Result, []string, error) {
	dir := fw.WorkDir("ref-" + name)
	defer os.RemoveAll(dir)
	skip := map[int]bool{}
	var dropped []string
	for attempt := 0; ; attempt++ {
		spans := refWrite(dir, progs, skip)
		cmd := exec.Command("go", "build", "-o", "ref.bin", ".")
		cmd.Dir = dir
		cmd.Env = goEnv
		out, err := cmd.CombinedOutput()
		if err == nil {
			break
		}
		if attempt >= 6 {
			return nil, dropped, fmt.Errorf("reference build keeps failing: %s", fw.Clip(string(out), 2000))
		}
		bad := map[int]string{}
		for _, line := range strings.Split(string(out), "\n") {
			m := errLineRe.FindStringSubmatch(line)
			if m == nil {
				continue
			}
			ln, _ := strconv.Atoi(m[2])
			for _, sp := range spans[m[1]] {
				if ln > sp.from && ln <= sp.to+1 {
					if _, ok := bad[sp.idx]; !ok {
						bad[sp.idx] = line
					}
				}
			}
		}
		if len(bad) == 0 {
			return nil, dropped, fmt.Errorf("reference build failed, no program identified: %s", fw.Clip(string(out), 2000))
		}
		for i, line := range bad {
			skip[i] = true
			dropped = append(dropped, progs[i].ID+": "+line)
		}
	}
	// run; restart after a fatal crash
	results := map[string]*Result{}
	var live []*Prog
	for i, p := range progs {
		if !skip[i] {
			live = append(live, p)
		}
	}
	start := 0
	for start < len(live) {
		cmd := exec.Command(filepath.Join(dir, "ref.bin"), strconv.Itoa(start))
		cmd.Dir = dir
		var stderr bytes.Buffer
		cmd.Stderr = &stderr
		stdout, _ := cmd.StdoutPipe()
		if err := cmd.Start(); err != nil {
			return nil, dropped, err
		}
		timer := time.AfterFunc(10*time.Minute, func() { cmd.Process.Kill() })
		sc := bufio.NewScanner(stdout)
		sc.Buffer(make([]byte, 1<<20), 1<<28)
		n := 0
		for sc.Scan() {
			var res Result
			if err := json.Unmarshal(sc.Bytes(), &res); err != nil {
				continue
			}
			r := res
			results[res.ID] = &r
			n++
		}
		err := cmd.Wait()
		timer.Stop()
		if start+n >= len(live) && err == nil {
			break
		}
		// died while running live[start+n]
		if start+n < len(live) {
			id := live[start+n].ID
			results[id] = &Result{ID: id, End: "crash", Detail: fw.Clip(lastLines(stderr.String(), 12), 1500)}
		}
		start += n + 1
	}
	return results, dropped, nil
}

func lastLines(s string, n int) string {
	lines := strings.Split(strings.TrimRight(s, "\n"), "\n")
	// skip START markers
	var keep []string
	for _, l := range lines {
		if !strings.HasPrefix(l, "START ") {
			keep = append(keep, l)
		}
	}
	if len(keep) > n {
		keep = keep[:n]
	}
	return strings.Join(keep, "\n")
}

// ---------------------------------------------------------------- interpreter workers (child processes)

// sutRun runs the programs through `<self> <workerCmd>` children, sharded, attributing crashes.
func sutRun(bin string, workerCmd string, progs []*Prog, extraEnv []string) map[string]*Result {
	nw := runtime.NumCPU()
	if nw > len(progs) {
		nw = len(progs)
	}
	if nw < 1 {
		nw = 1
	}
	results := map[string]*Result{}
	var mu sync.Mutex
	var wg sync.WaitGroup
	for w := 0; w < nw; w++ {
		var shard []*Prog
		for i := w; i < len(progs); i += nw {
			shard = append(shard, progs[i])
		}
		wg.Add(1)
		go func(shard []*Prog) {
			defer wg.Done()
			for len(shard) > 0 {
				done, crashed := sutRunShard(bin, workerCmd, shard, extraEnv)
				mu.Lock()
				for _, r := range done {
					results[r.ID] = r
				}
				mu.Unlock()
				consumed := len(done)
				if crashed != nil {
					mu.Lock()
					results[crashed.ID] = crashed
					mu.Unlock()
					consumed++
				}
				if consumed == 0 {
					// worker cannot even start: mark all as crash
					mu.Lock()
					for _, p := range shard {
						results[p.ID] = &Result{ID: p.ID, End: "crash", Detail: "worker did not start"}
					}
					mu.Unlock()
					return
				}
				shard = shard[consumed:]
			}
		}(shard)
	}
	wg.Wait()
	return results
}

func sutRunShard(bin, workerCmd string, shard []*Prog, extraEnv []string) (done []*Result, crashed *Result) {
	cmd := exec.Command(bin, workerCmd)
	cmd.Env = append(os.Environ(), extraEnv...)
	stdin, _ := cmd.StdinPipe()
	stdout, _ := cmd.StdoutPipe()
	errf, _ := os.CreateTemp(filepath.Join(fw.VerifDir, "work"), "worker-stderr-*")
	defer os.Remove(errf.Name())
	defer errf.Close()
	cmd.Stderr = errf
	if err := cmd.Start(); err != nil {
		return nil, nil
	}
	go func() {
		w := bufio.NewWriter(stdin)
		enc := json.NewEncoder(w)
		for _, p := range shard {
			enc.Encode(p)
		}
		w.Flush()
		stdin.Close()
	}()
	// generous wall-clock watchdog: its firing is a crash of unknown cause => inconclusive for that program
	perProg := 70 * time.Second
	timer := time.AfterFunc(time.Duration(len(shard))*perProg+2*time.Minute, func() { cmd.Process.Signal(os.Interrupt); time.Sleep(time.Second); cmd.Process.Kill() })
	defer timer.Stop()
	sc := bufio.NewScanner(stdout)
	sc.Buffer(make([]byte, 1<<20), 1<<28)
	started := ""
	for sc.Scan() {
		line := sc.Bytes()
		if bytes.HasPrefix(line, []byte("START ")) {
			started = string(line[6:])
			continue
		}
		if !bytes.HasPrefix(line, []byte("{")) {
			continue
		}
		var res Result
		if err := json.Unmarshal(line, &res); err != nil {
			continue
		}
		r := res
		done = append(done, &r)
		started = ""
	}
	err := cmd.Wait()
	if len(done) < len(shard) && started == "" && len(done) > 0 && err == nil {
		// the worker left on purpose after reporting a program that can never end (deadlock): the caller restarts it
		return done, nil
	}
	if len(done) < len(shard) {
		id := shard[len(done)].ID
		if started != "" && started != id {
			id = started
		}
		errf.Seek(0, 0)
		data, _ := io.ReadAll(io.LimitReader(errf, 1<<16))
		crashed = &Result{ID: id, End: "crash", Detail: fmt.Sprintf("worker died (%v): %s", err, fw.Clip(string(data), 3000))}
	}
	return done, crashed
}

// ---------------------------------------------------------------- comparison and driver

func cmpResults(ref, got *Result) (bool, string) {
	n := len(ref.Events)
	if len(got.Events) < n {
		n = len(got.Events)
	}
	for i := 0; i < n; i++ {
		if ref.Events[i] != got.Events[i] {
			return false, fmt.Sprintf("event %d: compiled %q interpreter %q", i, ref.Events[i], got.Events[i])
		}
	}
	if len(ref.Events) != len(got.Events) {
		var extra string
		if len(ref.Events) > n {
			extra = "compiled continues with " + ref.Events[n]
		} else {
			extra = "interpreter continues with " + got.Events[n]
		}
		return false, fmt.Sprintf("after %d common events: %s (compiled end=%s, interpreter end=%s %s)", n, extra, ref.End, got.End, fw.Clip(got.CompileErr+got.Detail, 300))
	}
	if ref.End != got.End {
		return false, fmt.Sprintf("after %d events: compiled ends %q, interpreter ends %q %s", n, ref.End, got.End, fw.Clip(got.CompileErr+got.Detail, 400))
	}
	return true, ""
}

type e1Replay struct {
	Prog *Prog   `json:"prog"`
	Ref  *Result `json:"compiled"`
	Got  *Result `json:"interpreter"`
	Diff string  `json:"first_divergence"`
}

type e1Opts struct {
	Worker      string // aux worker command, default "e1worker"
	Bin         string // worker binary, default self
	Env         []string
	// Classify may map a divergence to a known-finding id ("" = new violation).
	Classify    func(p *Prog, ref, got *Result, diff string) string
	// RejectOK: programs the gate rejected are sent to the interpreter and must fail to compile with zero events.
	CheckReject bool
	MaxDropFrac float64
	// Findings: reproducers of defects listed in known_findings.json (kind "finding"). Each is run with the batch;
	// while it still diverges the check prints KNOWN-FINDING for its id, and the generators avoid the construct,
	// so any other divergence is a new violation.
	Findings []e1Finding
	// AcceptCompileErr: interpreter compile errors on gate-valid programs are counted as "unsupported" and skipped
	// (used by properties that are conditional on "compiles").
	SkipUnsupported func(p *Prog, got *Result) bool
}

type e1Finding struct {
	ID  string
	Src string
}

func selfBin() string {
	exe, err := os.Executable()
	if err != nil {
		return os.Args[0]
	}
	return exe
}

// e1Run gates, runs both sides, compares, and reports. Returns (#compared, #violations).
func e1Run(r *fw.Run, progs []*Prog, o e1Opts) {
	if o.Worker == "" {
		o.Worker = "e1worker"
	}
	if o.Bin == "" {
		o.Bin = selfBin()
	}
	if o.MaxDropFrac == 0 {
		o.MaxDropFrac = 0.05
	}
	for _, f := range o.Findings {
		progs = append(progs, &Prog{ID: "finding-" + f.ID, Src: f.Src, Cell: "known-finding:" + f.ID})
	}
	t0 := time.Now()
	e1Gate(progs)
	var valid, rejected []*Prog
	for _, p := range progs {
		if p.Reject {
			rejected = append(rejected, p)
		} else {
			valid = append(valid, p)
		}
	}
	for _, p := range rejected {
		msg := p.GateErr
		if i := strings.Index(msg, ": "); i >= 0 {
			msg = msg[i+2:]
		}
		msg = regexp.MustCompile(`[0-9]+`).ReplaceAllString(msg, "N")
		r.Cover("gate_reject_reason", fw.Clip(msg, 60))
	}
	r.Count("gate_valid", int64(len(valid)))
	r.Count("gate_rejected", int64(len(rejected)))
	tGate := time.Since(t0)
	var refRes map[string]*Result
	var dropped []string
	var refErr error
	var wg sync.WaitGroup
	wg.Add(1)
	go func() {
		defer wg.Done()
		if len(valid) > 0 {
			refRes, dropped, refErr = refRun(r.Prop, valid)
		}
	}()
	toRun := valid
	if o.CheckReject {
		toRun = append(append([]*Prog{}, valid...), rejected...)
	}
	t1 := time.Now()
	sutRes := sutRun(o.Bin, o.Worker, toRun, o.Env)
	tSut := time.Since(t1)
	wg.Wait()
	r.Extra("timing_s", map[string]float64{"gate": tGate.Seconds(), "interpreter": tSut.Seconds(), "total": time.Since(t0).Seconds()})
	if refErr != nil {
		r.Inconclusive("compiled reference unavailable: " + refErr.Error())
		return
	}
	r.Count("dropped_invalid", int64(len(dropped)))
	if len(dropped) > 0 {
		r.Extra("dropped_examples", dropped[:minInt(len(dropped), 5)])
	}
	if float64(len(dropped)) > o.MaxDropFrac*float64(len(valid))+2 {
		r.Inconclusive(fmt.Sprintf("generator problem: %d of %d gate-valid programs failed to build as Go (e.g. %s)", len(dropped), len(valid), fw.Clip(dropped[0], 300)))
	}
	for _, p := range valid {
		ref := refRes[p.ID]
		if ref == nil {
			continue // dropped
		}
		if ref.End == "crash" {
			r.Count("ref_crash", 1)
			continue
		}
		got := sutRes[p.ID]
		if got == nil {
			r.Count("sut_missing", 1)
			continue
		}
		if o.SkipUnsupported != nil && o.SkipUnsupported(p, got) {
			r.Count("skipped_unsupported", 1)
			continue
		}
		if got.End == "crash" && strings.Contains(got.Detail, "watchdog") {
			// wall-clock watchdog: never a verdict
			r.Count("watchdog_inconclusive", 1)
			if r.Counter("watchdog_inconclusive") > int64(len(valid)/50+2) {
				r.Inconclusive("too many programs hit the 60 s wall-clock watchdog (machine overloaded?): " + p.ID)
			}
			continue
		}
		r.Eval(1)
		ok, diff := cmpResults(ref, got)
		if len(ref.Events) > 0 || ref.End != "ret" {
			r.Distinct(p.Src + p.RefSrc + strings.Join(p.Steps, "\n") + fmt.Sprint(p.Mode))
		}
		r.Count("events_compared", int64(len(ref.Events)))
		for k, v := range got.Extra {
			if n, err := strconv.ParseInt(v, 10, 64); err == nil && n != 0 {
				r.Count("hook_"+k, n)
			}
		}
		if strings.HasPrefix(ref.End, "panic:") {
			r.Cover("ref_end", strings.SplitN(ref.End, ":", 3)[1])
		} else {
			r.Cover("ref_end", ref.End)
		}
		if p.Cell != "" {
			r.Cover("cells", p.Cell)
		}
		if ok {
			if len(ref.Events) > 0 {
				r.Sample(map[string]interface{}{"id": p.ID, "cell": p.Cell, "src": fw.Clip(p.plainSrc(), 700), "trace_head": ref.Events[:minInt(len(ref.Events), 4)], "events": len(ref.Events), "end": ref.End})
			}
			continue
		}
		rep := e1Replay{p, ref, got, diff}
		what := fmt.Sprintf("%s [%s]: %s", p.ID, p.Cell, diff)
		if got.End == "crash" {
			what = fmt.Sprintf("%s [%s]: interpreter process died: %s", p.ID, p.Cell, fw.Clip(got.Detail, 500))
		}
		if strings.HasPrefix(p.Cell, "known-finding:") {
			r.Known(strings.TrimPrefix(p.Cell, "known-finding:"), rep, what)
			continue
		}
		if id := ""; o.Classify != nil {
			id = o.Classify(p, ref, got, diff)
			if id != "" {
				r.Known(id, rep, what)
				continue
			}
		}
		r.Violation(p.Cell, rep, what)
	}
	if o.CheckReject {
		for _, p := range rejected {
			got := sutRes[p.ID]
			if got == nil {
				continue
			}
			r.Eval(1)
			r.Distinct("reject:" + p.Src)
			r.Cover("ref_end", "rejected-by-go")
			if got.End == "compile-error" && len(got.Events) == 0 {
				continue
			}
			rep := e1Replay{p, &Result{ID: p.ID, End: "compile-error", CompileErr: p.GateErr}, got, "Go rejects this program: " + p.GateErr}
			what := fmt.Sprintf("%s [%s]: Go rejects (%s) but the interpreter ended %q with %d events", p.ID, p.Cell, fw.Clip(p.GateErr, 200), got.End, len(got.Events))
			if id := ""; o.Classify != nil {
				id = o.Classify(p, rep.Ref, got, rep.Diff)
				if id != "" {
					r.Known(id, rep, what)
					continue
				}
			}
			r.Violation("accepted-invalid:"+p.Cell, rep, what)
		}
	}
}

func minInt(a, b int) int {
	if a < b {
		return a
	}
	return b
}

// e1ReplayFile re-runs one recorded program on both sides and prints the outcome.
func e1ReplayFile(r *fw.Run, path string, o e1Opts) {
	var rep e1Replay
	if err := fw.LoadReplay(path, &rep); err != nil {
		panic(err)
	}
	p := rep.Prog
	p.Reject, p.GateErr = false, ""
	fmt.Printf("replaying %s [%s]\n%s\n", p.ID, p.Cell, p.plainSrc())
	r.SetMinDistinct(0)
	e1Run(r, []*Prog{p}, o)
}

// fragValid reports whether a group of top-level declarations type-checks as Go (with the prelude
// and a §rc helper in scope). Used by generators to drop constant expressions Go rejects.
func fragValid(frag string) bool {
	src := "package p\n" + e1Prelude + "func rc(tag int) {}\n" + strings.ReplaceAll(frag, "§", "")
	fset := token.NewFileSet()
	f, err := parser.ParseFile(fset, "f.go", src, 0)
	if err != nil {
		return false
	}
	ok := true
	conf := types.Config{GoVersion: "go1.18", Error: func(error) { ok = false }}
	conf.Check("p", fset, []*ast.File{f}, nil)
	return ok
}

// fitsKind reports whether the integer literal fits the integer kind.
func fitsKind(lit string, k *kindInfo) bool {
	return fragValid(fmt.Sprintf("var _ %s = %s\n", k.Name, lit))
}

// substIdent replaces whole identifiers in a Go expression, leaving string and rune literals alone.
func substIdent(expr string, repl map[string]string) string {
	var b strings.Builder
	i := 0
	for i < len(expr) {
		c := expr[i]
		switch {
		case c == '"' || c == '\'' || c == '`':
			j := i + 1
			for j < len(expr) && expr[j] != c {
				if expr[j] == '\\' && c != '`' {
					j++
				}
				j++
			}
			if j < len(expr) {
				j++
			}
			b.WriteString(expr[i:j])
			i = j
		case c == '_' || c >= 'a' && c <= 'z' || c >= 'A' && c <= 'Z' || c >= 0x80:
			j := i
			for j < len(expr) && (expr[j] == '_' || expr[j] >= 'a' && expr[j] <= 'z' || expr[j] >= 'A' && expr[j] <= 'Z' || expr[j] >= '0' && expr[j] <= '9' || expr[j] >= 0x80) {
				j++
			}
			id := expr[i:j]
			if r, ok := repl[id]; ok {
				b.WriteString(r)
			} else {
				b.WriteString(id)
			}
			i = j
		case c >= '0' && c <= '9':
			// number literal (may contain letters: 0x1f, 1e10, 2i)
			j := i
			for j < len(expr) && (expr[j] == '.' || expr[j] == '_' || expr[j] >= 'a' && expr[j] <= 'z' || expr[j] >= 'A' && expr[j] <= 'Z' || expr[j] >= '0' && expr[j] <= '9' ||
				(expr[j] == '+' || expr[j] == '-') && j > i && (expr[j-1] == 'e' || expr[j-1] == 'E' || expr[j-1] == 'p' || expr[j-1] == 'P')) {
				j++
			}
			b.WriteString(expr[i:j])
			i = j
		default:
			b.WriteByte(c)
			i++
		}
	}
	return b.String()
}

var fragImporter = importer.Default()
var fragImporterMu sync.Mutex

// fragValidImports is fragValid for fragments that use imported packages.
func fragValidImports(frag string, imports []string) bool {
	var b strings.Builder
	b.WriteString("package p\n")
	for _, im := range imports {
		fmt.Fprintf(&b, "import %q\n", im)
	}
	b.WriteString(e1Prelude + strings.ReplaceAll(frag, "§", ""))
	fset := token.NewFileSet()
	f, err := parser.ParseFile(fset, "f.go", b.String(), 0)
	if err != nil {
		return false
	}
	ok := true
	fragImporterMu.Lock()
	defer fragImporterMu.Unlock()
	conf := types.Config{GoVersion: "go1.18", Importer: fragImporter, Error: func(err error) {
		if !strings.Contains(err.Error(), "imported and not used") {
			ok = false
		}
	}}
	conf.Check("p", fset, []*ast.File{f}, nil)
	return ok
}

// ---------------------------------------------------------------- race-detector runs

type raceReport struct {
	Text    string
	Frames  []string // gomacro frames (file:line) of the racing accesses, outermost last
	Key     string
	Gomacro bool
}

var raceFrameRe = regexp.MustCompile(`(/repo/[^\s:]+\.go):(\d+)`)

// raceParse reads the GORACE log files with the given prefix and returns de-duplicated reports.
func raceParse(prefix string) (reports []raceReport, blocks int) {
	files, _ := filepath.Glob(prefix + ".*")
	seen := map[string]bool{}
	for _, f := range files {
		data, err := os.ReadFile(f)
		os.Remove(f)
		if err != nil {
			continue
		}
		for _, blk := range strings.Split(string(data), "==================") {
			if !strings.Contains(blk, "WARNING: DATA RACE") {
				continue
			}
			blocks++
			var rep raceReport
			rep.Text = fw.Clip(blk, 30000)
			// the two accesses: first frame under "Write at"/"Read at" and under "Previous write/read at"
			parts := regexp.MustCompile(`(?m)^(Write|Read|Previous write|Previous read|Previous atomic [a-z]+|Atomic [a-z]+) at`).Split(blk, -1)
			var tops []string
			for _, part := range parts[1:] {
				if i := strings.Index(part, "\n\n"); i >= 0 {
					part = part[:i]
				}
				if m := raceFrameRe.FindStringSubmatch(part); m != nil {
					tops = append(tops, strings.TrimPrefix(m[1], "/repo/")+":"+m[2])
					rep.Gomacro = true
				}
			}
			sort.Strings(tops)
			rep.Frames = tops
			rep.Key = strings.Join(tops, " <-> ")
			if rep.Key == "" {
				rep.Key = "no-gomacro-frame:" + fw.Hash(blk)
			}
			if !seen[rep.Key] {
				seen[rep.Key] = true
				reports = append(reports, rep)
			}
		}
	}
	return
}

func raceBin() string {
	return filepath.Join(filepath.Dir(selfBin()), "gmverif-race")
}
