//go:build race

package main

const c33RaceEnabled = true
