package main

// C18 — program results do not depend on semantics-neutral interpreter options: debugger support,
// declaration/statement collection, panic stack traces, panic trapping (ParseEvalPrint), the
// generics extension (generic-free programs); OptKeepUntyped only changes how a final untyped
// constant is returned.

import (
	"bufio"
	"bytes"
	"encoding/json"
	"fmt"
	"go/constant"
	"go/token"
	"io"
	"math"
	"math/rand"
	"os"
	"regexp"
	"sort"
	"strconv"
	"strings"
	"time"

	"github.com/cosmos72/gomacro/base"
	"github.com/cosmos72/gomacro/base/untyped"
	"github.com/cosmos72/gomacro/fast"
	"github.com/cosmos72/gomacro/go/etoken"

	"gmverif/internal/fw"
	"gmverif/internal/tr"
)

func init() {
	register("C18", "exploration", checkC18)
	auxCmds["c18worker"] = c18Worker
}

// ---------------------------------------------------------------- option combinations

type c18Combo struct {
	Name  string
	Mode  map[string]string
	Trap  bool
	Stack bool
}

func c18Combos(thorough bool, seed int64) []c18Combo {
	var out []c18Combo
	for bits := 0; bits < 32; bits++ {
		dbg, coll, stack, nogen, trap := bits&1 != 0, bits&2 != 0, bits&4 != 0, bits&8 != 0, bits&16 != 0
		var set, clear base.Options
		var names []string
		if dbg {
			set |= base.OptDebugger
			names = append(names, "debugger")
		}
		if coll {
			set |= base.OptCollectDeclarations | base.OptCollectStatements
			names = append(names, "collect")
		}
		if stack {
			set |= base.OptPanicStackTrace
			names = append(names, "stacktrace")
		}
		// the interpreter sets OptTrapPanic by default: clear it explicitly when it is off
		if trap {
			set |= base.OptTrapPanic
			names = append(names, "trap")
		} else {
			clear |= base.OptTrapPanic
		}
		mode := map[string]string{"options": strconv.FormatUint(uint64(set), 10), "options_clear": strconv.FormatUint(uint64(clear), 10), "pep": "1"}
		if nogen {
			mode["generics"] = "none"
			names = append(names, "nogenerics")
		}
		if len(names) == 0 {
			names = []string{"none"}
		}
		out = append(out, c18Combo{Name: strings.Join(names, "+"), Mode: mode, Trap: trap, Stack: stack})
	}
	return out
}

// ---------------------------------------------------------------- worker (ParseEvalPrint path)

func c18Worker(args []string) {
	in := bufio.NewReaderSize(os.Stdin, 1<<20)
	out := bufio.NewWriterSize(os.Stdout, 1<<16)
	dec := json.NewDecoder(in)
	for {
		var p Prog
		if err := dec.Decode(&p); err != nil {
			break
		}
		fmt.Fprintf(out, "START %s\n", p.ID)
		out.Flush()
		var res *Result
		if p.Mode["pep"] == "1" {
			res = c18RunProgPEP(&p)
		} else {
			res = runProgFast(&p)
		}
		data, _ := json.Marshal(res)
		out.Write(data)
		out.WriteByte('\n')
		out.Flush()
	}
}

// c18Stderr removes the interpreter's warnings from the captured error stream.
func c18Stderr(b *bytes.Buffer) string {
	var keep []string
	for _, l := range strings.SplitAfter(b.String(), "\n") {
		if strings.HasPrefix(l, "// warning:") {
			continue
		}
		keep = append(keep, l)
	}
	return strings.Join(keep, "")
}

// c18RunProgPEP evaluates the program the way the REPL does: Interp.ParseEvalPrint on the
// declarations, then on `P()`; with OptTrapPanic a panic does not propagate: it is printed to
// Globals.Stderr, which is captured.
func c18RunProgPEP(p *Prog) *Result {
	res := &Result{ID: p.ID, End: "ret", Extra: map[string]string{}}
	trace := &tr.Trace{}
	fast.VerifSetPoison(false)
	switch p.Mode["generics"] {
	case "none":
		etoken.GENERICS = etoken.GENERICS_NONE
	default:
		etoken.GENERICS = etoken.GENERICS_V2_CTI
	}
	ir := fast.New()
	g := &ir.Comp.Globals
	var errbuf bytes.Buffer
	g.Stdout = io.Discard
	g.Stderr = &errbuf
	if o := p.Mode["options"]; o != "" {
		n, _ := strconv.ParseUint(o, 10, 64)
		g.Options |= base.Options(n)
	}
	if o := p.Mode["options_clear"]; o != "" {
		n, _ := strconv.ParseUint(o, 10, 64)
		g.Options &^= base.Options(n)
	}
	res.Extra["options"] = g.Options.String()
	ir.DeclFunc("rec", func(tag int, v ...interface{}) { trace.Rec(tag, v...) })
	ir.DeclFunc("pcl", func(r interface{}) string { return tr.PanicClass(r) })
	ir.DeclFunc("hk", func() { trace.Hooks++ })
	ir.DeclFunc("nc", func(v interface{}) interface{} { return tr.NoCap{V: v} })
	timedOut := false
	timer := time.AfterFunc(15*time.Second, func() { timedOut = true; ir.Interrupt(os.Interrupt) })
	defer timer.Stop()
	finish := func() *Result {
		res.Events = trace.Events
		res.Hooks = trace.Hooks
		if timedOut {
			res.End = "crash"
			res.Detail = "watchdog: program did not finish in 15 s (inconclusive)"
		}
		return res
	}
	var src strings.Builder
	for _, im := range p.Imports {
		fmt.Fprintf(&src, "import %q\n", im)
	}
	src.WriteString(p.plainSrc())
	if r, bad := guard(func() { ir.ParseEvalPrint(src.String()) }); bad {
		res.End = "compile-error"
		res.CompileErr = "declarations: " + panicText(r)
		return finish()
	}
	if s := c18Stderr(&errbuf); s != "" {
		res.End = "trapped-declarations"
		res.Extra["stderr"] = fw.Clip(s, 4000)
		return finish()
	}
	errbuf.Reset()
	steps := p.Steps
	if len(steps) == 0 {
		steps = []string{"P()"}
	}
	for _, st := range steps {
		st = strings.ReplaceAll(st, "§", "")
		if r, bad := guard(func() { ir.ParseEvalPrint(st) }); bad {
			res.End = "panic:" + tr.PanicClass(r)
			res.Detail = panicText(r)
			return finish()
		}
		if s := c18Stderr(&errbuf); s != "" {
			res.End = "trapped"
			res.Extra["stderr"] = fw.Clip(s, 4000)
			return finish()
		}
	}
	return finish()
}

// ---------------------------------------------------------------- sample of the C01-C08 corpora

func c18Sample(r *fw.Run) []*Prog {
	rng := r.Rng("sample")
	var progs []*Prog
	add := func(src string, p *Prog) {
		p.ID = fmt.Sprintf("c18-%s-%d", src, len(progs))
		p.Cell = src + ":" + p.Cell
		p.Mode = nil
		progs = append(progs, p)
	}
	scale := r.Pick(1, 8)
	// C01: operator x kind x storage cells
	for n := 0; n < 18*scale; n++ {
		unary := rng.Intn(5) == 0
		for try := 0; try < 100; try++ {
			k := &allKinds[rng.Intn(len(allKinds))]
			st := c01Storages[rng.Intn(len(c01Storages))]
			if unary {
				op := c01UnOps[rng.Intn(len(c01UnOps))]
				if c01UnValid(op, k) {
					add("C01", c01Cell(n, op, true, k, k, st, rng, 2))
					break
				}
				continue
			}
			op := c01BinOps[rng.Intn(len(c01BinOps))]
			if !c01BinValid(op, k) {
				continue
			}
			ck := k
			if op.class == "shift" {
				for {
					ck = &allKinds[rng.Intn(len(allKinds))]
					if ck.isInteger() {
						break
					}
				}
			}
			add("C01", c01Cell(n, op.op, false, k, ck, st, rng, 2))
			break
		}
	}
	// C02: assignment cells, multi-assignment, sequences
	for n := 0; n < 12*scale; n++ {
		for try := 0; try < 100; try++ {
			k := &allKinds[rng.Intn(len(allKinds))]
			op := c02Ops[rng.Intn(len(c02Ops))]
			if c02OpValid(op, k) {
				add("C02", c02Cell(n, op, k, c02Places[rng.Intn(len(c02Places))], rng, 2))
				break
			}
		}
	}
	for n := 0; n < 3*scale; n++ {
		add("C02", c02Multi(n, &allKinds[rng.Intn(len(allKinds))], rng))
	}
	for n := 0; n < 8*scale; n++ {
		add("C02", c02Seq(n, &allKinds[1+rng.Intn(len(allKinds)-1)], rng))
	}
	// C03: conversions between basic kinds (pairs Go rejects are dropped by the gate)
	for n := 0; n < 12*scale; n++ {
		s, d := &allKinds[rng.Intn(len(allKinds))], &allKinds[rng.Intn(len(allKinds))]
		add("C03", c03Pair(n, s.Name, d.Name, s, d, "", rng, 2))
	}
	for n := 0; n < 3*scale; n++ {
		add("C03", c03Strings(n, n%3, rng))
	}
	// C05: control flow
	feat := map[string]int{}
	for n := 0; n < 20*scale; n++ {
		add("C05", c05Prog(n, rng, feat))
	}
	// C07: defer / panic / recover (most programs end with a panic escaping P)
	for n := 0; n < 24*scale; n++ {
		add("C07", c07Prog(n, rng, feat))
	}
	// C08: composite types
	elems := c08Elems()
	for n := 0; n < 10*scale; n++ {
		e := elems[rng.Intn(len(elems))]
		sc := c08Scenarios(e)
		var names []string
		for k := range sc {
			names = append(names, k)
		}
		sort.Strings(names)
		name := names[rng.Intn(len(names))]
		add("C08", &Prog{Src: e.Decl + sc[name], Cell: name + "/" + e.T})
	}
	for n := 0; n < 8*scale; n++ {
		add("C08", c08Seq(n, rng))
	}
	// declarations and statements that compile to no code of their own (blank variables, constants, types, labels,
	// empty statements): the option-dependent statement wrappers must cope with them
	for n := 0; n < 6*scale; n++ {
		add("NOP", c18NoCode(n, rng))
	}
	// programs that record a few events and then END in a panic escaping P (what OptTrapPanic is about):
	// user values of assorted types and run-time errors, raised at call depth 0-3, directly, inside a closure,
	// inside a deferred function, or re-raised after a recover
	for n := 0; n < 20*scale; n++ {
		add("ESC", c18Escape(n, rng))
	}
	return progs
}

var c18PanicStmts = []struct{ name, stmt string }{
	{"string", `panic("boom")`}, {"int", `panic(42 + d)`}, {"float", `panic(2.5)`}, {"bool", `panic(true)`},
	{"slice", `panic([]int{1, d})`}, {"struct", `panic(struct{ A int; B string }{7, "x"})`}, {"named-struct", `panic(§E{d, "e"})`},
	{"map", `panic(map[string]int{"k": d})`}, {"complex", `panic(1 + 2i)`}, {"rune", `panic('x')`},
	{"divide", "var z int\nrec(90, 10 / z)"}, {"index", "var s []int\nrec(90, s[d+3])"}, {"nilmap", "var m map[string]int\nm[\"k\"] = 1"},
	{"nilderef", "var p *§E\nrec(90, p.A)"}, {"typeassert", "var e interface{} = \"str\"\nrec(90, e.(int))"},
	{"array-index", "a := [3]int{}\ni := d + 5\nrec(90, a[i])"}, {"closed-chan", "c := make(chan int)\nclose(c)\nclose(c)"},
	{"makeslice", "n := d - 5\nrec(90, len(make([]int, n)))"}, {"slice-bounds", "s := []int{1, 2, 3}\ni := d + 7\nrec(90, s[1:i])"},
}

func c18Escape(id int, rng *rand.Rand) *Prog {
	ps := c18PanicStmts[rng.Intn(len(c18PanicStmts))]
	depth := rng.Intn(4)
	where := []string{"direct", "closure", "deferred", "repanic"}[rng.Intn(4)]
	var b strings.Builder
	b.WriteString("type §E struct { A int; B string }\n")
	b.WriteString("func §f(d int) int {\ndefer func() { rec(2, d) }()\nif d > 0 {\nreturn §f(d-1) + 1\n}\n")
	switch where {
	case "direct":
		b.WriteString(ps.stmt + "\n")
	case "closure":
		b.WriteString("func() {\nrec(3, d)\n" + ps.stmt + "\n}()\n")
	case "deferred":
		b.WriteString("defer func() {\nrec(3, d)\n" + ps.stmt + "\n}()\n")
	case "repanic":
		b.WriteString("defer func() {\nr := recover()\nrec(3, pcl(r))\npanic(r)\n}()\n" + ps.stmt + "\n")
	}
	b.WriteString("rec(4, d)\nreturn d\n}\n")
	fmt.Fprintf(&b, "func §P() {\nrec(1, %d)\nrec(5, §f(%d))\n}\n", id, depth)
	return &Prog{Src: b.String(), Cell: fmt.Sprintf("escape/%s/%s/depth%d", ps.name, where, depth)}
}

// ---------------------------------------------------------------- comparison

type c18Replay struct {
	Prog     *Prog   `json:"prog"`
	Combo    string  `json:"combination"`
	Ref      *Result `json:"compiled"`
	Baseline *Result `json:"interpreter_default_options"`
	Got      *Result `json:"interpreter"`
	Diff     string  `json:"first_divergence"`
}

var c18AddrRe = regexp.MustCompile(`0x[0-9a-f]{6,}`)

// c18Compare checks one run under an option combination against the expected result `want`
// (compiled Go, or the default-options interpreter run when that one differs from compiled Go).
// base is the default-options interpreter run (untrapped panic), trapRef the run with OptTrapPanic alone.
func c18Compare(want, base, trapRef, got *Result, cb c18Combo) (bool, string) {
	g := *got
	if cb.Trap {
		switch {
		case strings.HasPrefix(want.End, "panic:"):
			if got.End != "trapped" {
				return false, fmt.Sprintf("expected a trapped panic (%s), the evaluation ended %q %s", want.End, got.End, fw.Clip(got.CompileErr+got.Detail+got.Extra["stderr"], 300))
			}
			text := c18AddrRe.ReplaceAllString(got.Extra["stderr"], "PTR")
			// (1) against the untrapped run: strings, errors and run-time errors print their text; composite user
			// values are formatted by the interpreter's own printer (field names etc.), which is presentation
			if strings.HasPrefix(base.End, "panic:") {
				wantText := c18AddrRe.ReplaceAllString(base.Detail+"\n", "PTR")
				class := strings.TrimPrefix(base.End, "panic:")
				if !strings.HasPrefix(class, "user:") || strings.HasPrefix(class, "user:string:") {
					if cb.Stack && !strings.HasPrefix(text, wantText) || !cb.Stack && text != wantText {
						return false, fmt.Sprintf("trapped panic: Stderr %q, the panic raised without trapping prints %q", fw.Clip(text, 300), fw.Clip(wantText, 300))
					}
				}
			}
			// (2) against the run with OptTrapPanic alone: every other combination prints the same panic
			if trapRef != nil && trapRef.End == "trapped" {
				wantText := c18AddrRe.ReplaceAllString(trapRef.Extra["stderr"], "PTR")
				if cb.Stack {
					if !strings.HasPrefix(text, wantText) || !strings.Contains(text[len(wantText):], "goroutine ") {
						return false, fmt.Sprintf("trapped panic with stack trace: Stderr %q does not start with the panic %q followed by a stack trace", fw.Clip(text, 200), fw.Clip(wantText, 200))
					}
				} else if text != wantText {
					return false, fmt.Sprintf("trapped panic: Stderr %q, with OptTrapPanic alone it is %q", fw.Clip(text, 300), fw.Clip(wantText, 300))
				}
			}
			g.End = want.End
		default:
			if got.End == "trapped" || got.End == "trapped-declarations" {
				return false, fmt.Sprintf("expected end %q, but something was trapped and printed to Stderr: %q", want.End, fw.Clip(got.Extra["stderr"], 300))
			}
		}
	} else if got.End == "trapped" || got.End == "trapped-declarations" {
		return false, fmt.Sprintf("OptTrapPanic is off but a panic was trapped: %q", fw.Clip(got.Extra["stderr"], 300))
	}
	return cmpResults(want, &g)
}

// ---------------------------------------------------------------- OptKeepUntyped

type c18KU struct {
	Expr    string `json:"expr"`
	Kept    string `json:"with_OptKeepUntyped"`
	Default string `json:"without"`
}

func c18DefaultValue(kind untyped.Kind, v constant.Value) (interface{}, bool) {
	switch kind {
	case untyped.Bool:
		return constant.BoolVal(v), true
	case untyped.String:
		return constant.StringVal(v), true
	case untyped.Int:
		i, ok := constant.Int64Val(constant.ToInt(v))
		return int(i), ok
	case untyped.Rune:
		i, ok := constant.Int64Val(constant.ToInt(v))
		return int32(i), ok && i >= math.MinInt32 && i <= math.MaxInt32
	case untyped.Float:
		f, _ := constant.Float64Val(constant.ToFloat(v))
		return f, !math.IsInf(f, 0)
	case untyped.Complex:
		re, _ := constant.Float64Val(constant.Real(constant.ToComplex(v)))
		im, _ := constant.Float64Val(constant.Imag(constant.ToComplex(v)))
		return complex(re, im), !math.IsInf(re, 0) && !math.IsInf(im, 0)
	}
	return nil, false
}

func c18KeepUntyped(r *fw.Run) {
	rng := r.Rng("keepuntyped")
	gen := &c04Gen{rng: rng}
	etoken.GENERICS = etoken.GENERICS_V2_CTI
	irKeep := newQuietInterp()
	irKeep.Comp.Globals.Options |= base.OptKeepUntyped
	irDef := newQuietInterp()
	irDef.Comp.Globals.Options &^= base.OptKeepUntyped
	n := r.Pick(3000, 30000)
	classes := []string{"int", "int", "rune", "float", "float", "complex", "string", "bool"}
	for i := 0; i < n; i++ {
		expr := gen.expr(classes[rng.Intn(len(classes))], 1+rng.Intn(4))
		decls := ""
		use := expr
		if rng.Intn(3) == 0 {
			// the constant is declared first, the final expression refers to it
			name := fmt.Sprintf("k%d", i)
			decls = fmt.Sprintf("const %s = %s\n", name, expr)
			use = name
			if rng.Intn(2) == 0 && !strings.HasPrefix(expr, "\"") {
				use = "(" + name + ")"
			}
		}
		kind, want, typed, err := c04GoEval(expr)
		if err != nil || typed {
			r.Count("ku_go_rejects_or_typed", 1)
			continue
		}
		if c32BeyondLimit(want) || (strings.Contains(expr, "<<") || strings.Contains(expr, ">>")) && c04FloatShift(expr) {
			r.Count("ku_documented_limit", 1)
			continue
		}
		if _, ok := c18DefaultValue(kind, want); !ok {
			r.Count("ku_not_representable_in_default_type", 1)
			continue
		}
		var kept untyped.Lit
		var isLit bool
		if _, bad := guard(func() {
			vs, _ := irKeep.Eval(decls + use)
			if len(vs) == 1 {
				kept, isLit = vs[0].Interface().(untyped.Lit)
			}
		}); bad || !isLit {
			r.Count("ku_kept_evaluation_failed_or_typed(C04's business)", 1)
			continue
		}
		var def interface{}
		perr, bad := guard(func() {
			vs, _ := irDef.Eval(decls + use)
			if len(vs) == 1 {
				def = vs[0].Interface()
			}
		})
		r.Eval(1)
		r.Cover("keepuntyped_kind", kept.Kind.String())
		c := c18KU{Expr: decls + use, Kept: fmt.Sprintf("%v %s", kept.Kind, fw.Clip(kept.Val.ExactString(), 200))}
		if bad {
			c.Default = "error: " + fw.Clip(panicText(perr), 300)
			r.Violation("keepuntyped/fails-without-option", c, fmt.Sprintf("%s: with OptKeepUntyped the result is %s, without the option the evaluation fails: %s", fw.Clip(c.Expr, 200), c.Kept, c.Default))
			continue
		}
		c.Default = fmt.Sprintf("%T %v", def, def)
		wantDef, ok := c18DefaultValue(kept.Kind, kept.Val)
		same := ok && fmt.Sprintf("%T", wantDef) == fmt.Sprintf("%T", def)
		if same {
			switch x := wantDef.(type) {
			case float64:
				same = math.Float64bits(x) == math.Float64bits(def.(float64)) || x == def.(float64)
			case complex128:
				same = x == def.(complex128)
			default:
				same = wantDef == def
			}
		}
		r.Distinct("ku:" + c.Expr)
		if !same {
			r.Violation("keepuntyped/value", c, fmt.Sprintf("%s: with OptKeepUntyped %s (= %v as default type), without %s", fw.Clip(c.Expr, 200), c.Kept, wantDef, c.Default))
			continue
		}
		if constant.Compare(constant.Make(c18NormConst(def)), token.EQL, kept.Val) {
			r.Count("ku_exactly_equal", 1)
		} else {
			r.Count("ku_equal_after_rounding_to_default_type", 1)
		}
		if r.Counter("ku_sampled") < 3 && len(c.Expr) > 12 && len(c.Expr) < 120 {
			r.Count("ku_sampled", 1)
			r.Sample(c)
		}
	}
}

// normConst maps a Go value to something constant.Make accepts.
func c18NormConst(v interface{}) interface{} {
	switch x := v.(type) {
	case int:
		return int64(x)
	case int32:
		return int64(x)
	case complex128:
		return constant.ToComplex(constant.BinaryOp(constant.MakeFloat64(real(x)), token.ADD, constant.MakeImag(constant.MakeFloat64(imag(x)))))
	}
	return v
}

// ---------------------------------------------------------------- check

func c18Clone(progs []*Prog, mode map[string]string) []*Prog {
	out := make([]*Prog, len(progs))
	for i, p := range progs {
		q := *p
		q.Mode = mode
		out[i] = &q
	}
	return out
}

func checkC18(r *fw.Run) {
	r.SetRule("a seeded stratified sample of the program generators of C01 (operator x kind x storage cells), C02 (assignment cells, multi-assignments, sequences), C03 (conversion pairs, string conversions), C05 (control flow), C07 (defer/panic/recover trees ending in an escaping panic) and C08 (composite-type scenarios and sequences) is evaluated through Interp.ParseEvalPrint in fresh interpreters (child processes) under all 32 combinations of {OptDebugger, OptCollectDeclarations|OptCollectStatements, OptPanicStackTrace, generics extension off, OptTrapPanic}; the reference trace is built once by compiled Go; oracle per (program, combination): event-by-event trace equality and equal end (return / escaping panic class) with compiled Go - if the default-options interpreter run itself differs from compiled Go (a defect of the source property) the combination must equal that run instead; with OptTrapPanic the panic must not propagate and the captured Globals.Stderr must be the %v text of the untrapped panic (followed by a stack trace with OptPanicStackTrace), and nothing may be printed there otherwise; OptKeepUntyped: random untyped constant expressions (C04 generator; optionally through a const declaration) whose value fits the default type are evaluated by two in-process interpreters with and without the option: the kept untyped.Lit converted to its default type must equal the value returned without the option; distinct = (program text with events) x combination, and distinct constant expressions")
	r.Assume("go/types + cmd/compile 1.23.5 (language go1.18) give the reference traces; the option bits are those of base/type.go; warnings ('// warning:' lines) on Globals.Stderr are not results")
	r.Assume("a trapped panic is observable only through Globals.Stderr (ParseEvalPrint gives no other signal): its class is taken from the untrapped run of the same program")
	if p := fw.ReplayArg(); p != "" {
		c18ReplayFile(r, p)
		return
	}
	progs := c18Sample(r)
	e1Gate(progs)
	var valid []*Prog
	for _, p := range progs {
		if p.Reject {
			r.Count("gate_rejected", 1)
			continue
		}
		valid = append(valid, p)
	}
	r.Count("gate_valid", int64(len(valid)))
	refRes, dropped, err := refRun("C18", valid)
	if err != nil {
		r.Inconclusive("compiled reference unavailable: " + err.Error())
		return
	}
	r.Count("dropped_invalid", int64(len(dropped)))
	if len(dropped) > len(valid)/20+2 {
		r.Inconclusive(fmt.Sprintf("generator problem: %d of %d gate-valid programs failed to build as Go (e.g. %s)", len(dropped), len(valid), fw.Clip(dropped[0], 300)))
		return
	}
	var live []*Prog
	for _, p := range valid {
		if ref := refRes[p.ID]; ref != nil && ref.End != "crash" {
			live = append(live, p)
		}
	}
	bin := selfBin()
	// default options, standard evaluation path (Compile + RunExpr): the run the other checks observe
	baseRes := sutRun(bin, "c18worker", c18Clone(live, map[string]string{}), nil)
	expect := map[string]*Result{}
	for _, p := range live {
		ref, b := refRes[p.ID], baseRes[p.ID]
		if b == nil || b.End == "crash" {
			r.Count("baseline_missing_or_crashed", 1)
			continue
		}
		if ok, _ := cmpResults(ref, b); ok {
			expect[p.ID] = ref
		} else {
			// belongs to the property the program comes from, not to C18: options must still not change it
			r.Count("baseline_differs_from_compiled(source property's business)", 1)
			r.Cover("baseline_differs", strings.SplitN(p.Cell, ":", 2)[0])
			expect[p.ID] = b
		}
	}
	t0 := time.Now()
	combos := c18Combos(r.Thorough(), r.Seed)
	// one batch of child processes per generics mode (etoken.GENERICS is process-global)
	got := map[string]*Result{}
	for _, nogen := range []bool{false, true} {
		var batch []*Prog
		for ci, cb := range combos {
			if (cb.Mode["generics"] == "none") != nogen {
				continue
			}
			for _, q := range c18Clone(live, cb.Mode) {
				q.ID = fmt.Sprintf("%s#%d", q.ID, ci)
				batch = append(batch, q)
			}
		}
		for id, res := range sutRun(bin, "c18worker", batch, nil) {
			got[id] = res
		}
	}
	trapOnly := -1
	for ci, cb := range combos {
		if cb.Name == "trap" {
			trapOnly = ci
		}
	}
	for ci, cb := range combos {
		for _, p := range live {
			want := expect[p.ID]
			if want == nil {
				continue
			}
			res := got[fmt.Sprintf("%s#%d", p.ID, ci)]
			if res == nil {
				r.Count("sut_missing", 1)
				continue
			}
			res.ID = p.ID
			if res.End == "crash" && strings.Contains(res.Detail, "watchdog") {
				r.Count("watchdog_inconclusive", 1)
				continue
			}
			r.Eval(1)
			r.Cover("combination", cb.Name)
			src := strings.SplitN(p.Cell, ":", 2)[0]
			r.Cover("source", src)
			end := want.End
			if strings.HasPrefix(end, "panic:") {
				end = strings.SplitN(end, ":", 3)[1]
				if cb.Trap {
					r.Cover("trapped_panic_class", end)
				}
			}
			r.Cover("expected_end", end)
			r.Count("events_compared", int64(len(want.Events)))
			if len(want.Events) > 0 || want.End != "ret" {
				r.Distinct(p.Src + "|" + cb.Name)
			}
			ok, diff := c18Compare(want, baseRes[p.ID], got[fmt.Sprintf("%s#%d", p.ID, trapOnly)], res, cb)
			if ok {
				kind := "sampled_ret"
				if want.End != "ret" {
					kind = "sampled_panic"
				}
				if cb.Trap && cb.Name != "trap" && r.Counter(kind+cb.Name) == 0 && r.Counter(kind) < 3 {
					r.Count(kind, 1)
					r.Count(kind+cb.Name, 1)
					r.Sample(map[string]interface{}{"id": p.ID, "cell": p.Cell, "combination": cb.Name, "options": res.Extra["options"], "events": len(want.Events), "end": want.End, "stderr_head": fw.Clip(res.Extra["stderr"], 120)})
				}
				continue
			}
			q := *p
			q.Mode = cb.Mode
			rep := c18Replay{&q, cb.Name, refRes[p.ID], baseRes[p.ID], res, diff}
			what := fmt.Sprintf("%s [%s] under {%s}: %s", p.ID, p.Cell, cb.Name, diff)
			if res.End == "crash" {
				what = fmt.Sprintf("%s [%s] under {%s}: interpreter process died: %s", p.ID, p.Cell, cb.Name, fw.Clip(res.Detail, 500))
			}
			if id := c18Classify(&q, cb, want, res, diff); id != "" {
				r.Known(id, rep, what)
				continue
			}
			r.Violation(src+"/"+cb.Name, rep, what)
		}
	}
	r.Extra("timing_s", map[string]float64{"combinations": time.Since(t0).Seconds()})
	r.Extra("programs", len(live))
	c18KeepUntyped(r)
}

func c18Classify(p *Prog, cb c18Combo, want, got *Result, diff string) string {
	return ""
}

func c18ReplayFile(r *fw.Run, path string) {
	var rep c18Replay
	if err := fw.LoadReplay(path, &rep); err != nil {
		// a KeepUntyped case
		var ku c18KU
		if err2 := fw.LoadReplay(path, &ku); err2 != nil || ku.Expr == "" {
			panic(err)
		}
	}
	r.SetMinDistinct(0)
	if rep.Prog == nil {
		var ku c18KU
		fw.LoadReplay(path, &ku)
		for _, keep := range []bool{true, false} {
			ir := newQuietInterp()
			if keep {
				ir.Comp.Globals.Options |= base.OptKeepUntyped
			} else {
				ir.Comp.Globals.Options &^= base.OptKeepUntyped
			}
			perr, bad := guard(func() {
				vs, _ := ir.Eval(ku.Expr)
				fmt.Printf("OptKeepUntyped=%v: %v\n", keep, vs)
			})
			if bad {
				fmt.Printf("OptKeepUntyped=%v: error %v\n", keep, panicText(perr))
			}
		}
		return
	}
	p := rep.Prog
	p.Reject, p.GateErr = false, ""
	fmt.Printf("replaying %s [%s] under {%s}\n%s\n", p.ID, p.Cell, rep.Combo, p.plainSrc())
	e1Gate([]*Prog{p})
	ref, _, err := refRun("C18", []*Prog{p})
	if err != nil || ref[p.ID] == nil {
		r.Inconclusive("compiled reference unavailable")
		return
	}
	bin := selfBin()
	b := sutRun(bin, "c18worker", c18Clone([]*Prog{p}, map[string]string{}), nil)[p.ID]
	got := sutRun(bin, "c18worker", []*Prog{p}, nil)[p.ID]
	var cb c18Combo
	for _, c := range c18Combos(true, 0) {
		if c.Name == rep.Combo {
			cb = c
		}
	}
	want := ref[p.ID]
	if ok, _ := cmpResults(want, b); !ok {
		want = b
	}
	fmt.Printf("compiled:    %v %s\ndefault:     %v %s %s\ncombination: %v %s %s %q\n", ref[p.ID].Events, ref[p.ID].End, b.Events, b.End, b.Detail, got.Events, got.End, got.Detail+got.CompileErr, got.Extra["stderr"])
	r.Eval(1)
	tq := *p
	tq.Mode = map[string]string{}
	for _, c := range c18Combos(true, 0) {
		if c.Name == "trap" {
			tq.Mode = c.Mode
		}
	}
	tref := sutRun(bin, "c18worker", []*Prog{&tq}, nil)[p.ID]
	if ok, diff := c18Compare(want, b, tref, got, cb); !ok {
		r.Violation("replay", c18Replay{p, cb.Name, ref[p.ID], b, got, diff}, diff)
	}
}

// c18NoCode: a program made of declarations and statements that compile to nothing, in seeded order, at package
// level and inside a function, with a few observable statements in between.
func c18NoCode(n int, rng *rand.Rand) *Prog {
	top := []string{"var _ = \"abc\"", "var _ []int = nil", "var _ = 1.5", "var _ = 42", "var _ map[string]int", "const _ = 7", "type _ int",
		"var _ = struct{}{}", "var _, _ = 1, \"x\"", "var _ interface{} = nil", "var _ func()", "var _ = [2]string{}", "var _ = 'r'", "var _ = 2i", "var _ bool"}
	inner := []string{"var _ = \"abc\"", "var _ []int = nil", "_ = 1.5", "const c%d = 1", "type t%d int", ";", "{}", "var _ = 'r'", "_ = nil == nil", "var _ interface{} = nil",
		"_ = \"s\" + \"t\"", "var _ [0]int", "_, _ = 1, 2", "var _ map[string]int", "var _ func()", "var _ *int"}
	var b strings.Builder
	nt := 2 + rng.Intn(6)
	for i := 0; i < nt; i++ {
		b.WriteString(top[rng.Intn(len(top))] + "\n")
	}
	b.WriteString("var §g = \"hello\"\n")
	for i := 0; i < 2; i++ {
		b.WriteString(top[rng.Intn(len(top))] + "\n")
	}
	b.WriteString("func §P() {\n")
	ni := 3 + rng.Intn(8)
	for i := 0; i < ni; i++ {
		st := inner[rng.Intn(len(inner))]
		if strings.Contains(st, "%d") {
			st = fmt.Sprintf(st, i)
		}
		b.WriteString(st + "\n")
		if rng.Intn(3) == 0 {
			fmt.Fprintf(&b, "rec(%d, §g, %d)\n", i+1, rng.Intn(100))
		}
	}
	b.WriteString("rec(99, §g + \" world\")\n}\n")
	return &Prog{Src: b.String(), Cell: "declarations-without-code"}
}
