package main

// C35 — type expressions used by the generator: a tiny parser for the type syntax the templates are
// written in (gomacro generics syntax `§Name#[A,B]` for instances), substitution of type parameters,
// capability predicates (comparable / ordered / addable / ...) and construction of value expressions.

import (
	"fmt"
	"math/rand"
	"strconv"
	"strings"
)

type c35Tx struct {
	K        string   // id | slice | arr | map | ptr | func | struct | chan | iface | inst | lit
	Name     string   // id: spelling (program-declared names carry §); inst: template name without §; lit: literal
	N        int      // arr: length
	A        []*c35Tx // element / key,value / parameters / field types / type arguments
	R        []*c35Tx // func: results
	F        []string // struct: field names
	Variadic bool     // func: last parameter is variadic
}

func (t *c35Tx) String() string {
	switch t.K {
	case "id", "lit":
		return t.Name
	case "slice":
		return "[]" + t.A[0].String()
	case "arr":
		return "[" + strconv.Itoa(t.N) + "]" + t.A[0].String()
	case "map":
		return "map[" + t.A[0].String() + "]" + t.A[1].String()
	case "ptr":
		return "*" + t.A[0].String()
	case "chan":
		return "chan " + t.A[0].String()
	case "iface":
		return "interface{}"
	case "func":
		var b strings.Builder
		b.WriteString("func(")
		for i, a := range t.A {
			if i > 0 {
				b.WriteString(", ")
			}
			if t.Variadic && i == len(t.A)-1 {
				b.WriteString("..." + a.A[0].String())
			} else {
				b.WriteString(a.String())
			}
		}
		b.WriteString(")")
		b.WriteString(c35ResString(t.R))
		return b.String()
	case "struct":
		var b strings.Builder
		b.WriteString("struct{")
		for i, a := range t.A {
			if i > 0 {
				b.WriteString("; ")
			}
			b.WriteString(t.F[i] + " " + a.String())
		}
		b.WriteString("}")
		return b.String()
	case "inst":
		var b strings.Builder
		b.WriteString("§" + t.Name + "#[")
		for i, a := range t.A {
			if i > 0 {
				b.WriteString(",")
			}
			b.WriteString(a.String())
		}
		b.WriteString("]")
		return b.String()
	}
	return "?" + t.K
}

func c35ResString(rs []*c35Tx) string {
	switch len(rs) {
	case 0:
		return ""
	case 1:
		return " " + rs[0].String()
	}
	var parts []string
	for _, r := range rs {
		parts = append(parts, r.String())
	}
	return " (" + strings.Join(parts, ", ") + ")"
}

func c35Id(name string) *c35Tx             { return &c35Tx{K: "id", Name: name} }
func c35Slice(e *c35Tx) *c35Tx             { return &c35Tx{K: "slice", A: []*c35Tx{e}} }
func c35Ptr(e *c35Tx) *c35Tx               { return &c35Tx{K: "ptr", A: []*c35Tx{e}} }
func c35Arr(n int, e *c35Tx) *c35Tx        { return &c35Tx{K: "arr", N: n, A: []*c35Tx{e}} }
func c35Map(k, v *c35Tx) *c35Tx            { return &c35Tx{K: "map", A: []*c35Tx{k, v}} }
func c35Inst(n string, a ...*c35Tx) *c35Tx { return &c35Tx{K: "inst", Name: n, A: a} }
func c35Func(ps []*c35Tx, rs ...*c35Tx) *c35Tx {
	return &c35Tx{K: "func", A: ps, R: rs}
}
func c35Struct(names []string, ts ...*c35Tx) *c35Tx { return &c35Tx{K: "struct", F: names, A: ts} }

// ---------------------------------------------------------------- parser

type c35Parser struct {
	s string
	i int
}

func (p *c35Parser) ws() {
	for p.i < len(p.s) && (p.s[p.i] == ' ' || p.s[p.i] == '\t' || p.s[p.i] == '\n') {
		p.i++
	}
}

func (p *c35Parser) has(pre string) bool { return strings.HasPrefix(p.s[p.i:], pre) }

func (p *c35Parser) eat(pre string) bool {
	if p.has(pre) {
		p.i += len(pre)
		return true
	}
	return false
}

func (p *c35Parser) must(pre string) {
	p.ws()
	if !p.eat(pre) {
		panic(fmt.Sprintf("c35 type parser: expected %q at %d in %q", pre, p.i, p.s))
	}
}

func c35IdentByte(c byte) bool {
	return c == '_' || c >= 'a' && c <= 'z' || c >= 'A' && c <= 'Z' || c >= '0' && c <= '9' || c >= 0x80
}

func (p *c35Parser) ident() string {
	j := p.i
	for j < len(p.s) && c35IdentByte(p.s[j]) {
		j++
	}
	id := p.s[p.i:j]
	p.i = j
	return id
}

func (p *c35Parser) typ() *c35Tx {
	p.ws()
	switch {
	case p.eat("[]"):
		return c35Slice(p.typ())
	case p.has("["):
		p.i++
		j := p.i
		for j < len(p.s) && p.s[j] >= '0' && p.s[j] <= '9' {
			j++
		}
		n, _ := strconv.Atoi(p.s[p.i:j])
		p.i = j
		p.must("]")
		return c35Arr(n, p.typ())
	case p.eat("map["):
		k := p.typ()
		p.must("]")
		return c35Map(k, p.typ())
	case p.eat("*"):
		return c35Ptr(p.typ())
	case p.eat("chan "):
		return &c35Tx{K: "chan", A: []*c35Tx{p.typ()}}
	case p.eat("interface{}"):
		return &c35Tx{K: "iface"}
	case p.eat("func("):
		t := &c35Tx{K: "func"}
		p.ws()
		for !p.has(")") {
			p.ws()
			if p.eat("...") {
				t.Variadic = true
				t.A = append(t.A, c35Slice(p.typ()))
			} else {
				t.A = append(t.A, p.typ())
			}
			p.ws()
			if !p.eat(",") {
				break
			}
		}
		p.must(")")
		t.R = p.results()
		return t
	case p.eat("struct{"):
		t := &c35Tx{K: "struct"}
		p.ws()
		for !p.has("}") {
			p.ws()
			name := p.ident()
			t.F = append(t.F, name)
			t.A = append(t.A, p.typ())
			p.ws()
			if !p.eat(";") {
				break
			}
			p.ws()
		}
		p.must("}")
		return t
	}
	if p.i < len(p.s) && p.s[p.i] >= '0' && p.s[p.i] <= '9' {
		return &c35Tx{K: "lit", Name: p.ident()}
	}
	id := p.ident()
	if id == "" {
		panic(fmt.Sprintf("c35 type parser: type expected at %d in %q", p.i, p.s))
	}
	if p.eat("#[") {
		t := &c35Tx{K: "inst", Name: strings.TrimPrefix(id, "§")}
		for {
			t.A = append(t.A, p.typ())
			p.ws()
			if !p.eat(",") {
				break
			}
		}
		p.must("]")
		return t
	}
	return c35Id(id)
}

// results parses an optional result list after a parameter list.
func (p *c35Parser) results() []*c35Tx {
	save := p.i
	p.ws()
	if p.i >= len(p.s) {
		return nil
	}
	c := p.s[p.i]
	if c == '(' {
		p.i++
		var rs []*c35Tx
		for {
			rs = append(rs, p.typ())
			p.ws()
			if !p.eat(",") {
				break
			}
		}
		p.must(")")
		return rs
	}
	if c == ',' || c == ')' || c == ']' || c == '}' || c == ';' || c == '{' || c == '=' {
		p.i = save
		return nil
	}
	return []*c35Tx{p.typ()}
}

func c35ParseType(s string) *c35Tx {
	p := &c35Parser{s: s}
	t := p.typ()
	p.ws()
	if p.i != len(p.s) {
		panic(fmt.Sprintf("c35 type parser: trailing text at %d in %q", p.i, s))
	}
	return t
}

type c35Param struct {
	Name     string
	T        *c35Tx
	Variadic bool     // T is then the slice type
	Alts     []string // fixed argument expressions (instead of generated values)
}

// c35ParseParams parses "s []T, f func(T) U, n int=0|1|2, rest ...T".
func c35ParseParams(s string) []c35Param {
	var out []c35Param
	for _, part := range c35SplitTop(s, ',') {
		part = strings.TrimSpace(part)
		if part == "" {
			continue
		}
		var alts []string
		if k := strings.LastIndex(part, "="); k >= 0 {
			alts = strings.Split(part[k+1:], "|")
			part = strings.TrimSpace(part[:k])
		}
		sp := strings.IndexByte(part, ' ')
		name, ts := part[:sp], strings.TrimSpace(part[sp+1:])
		pa := c35Param{Name: name, Alts: alts}
		if strings.HasPrefix(ts, "...") {
			pa.Variadic = true
			pa.T = c35Slice(c35ParseType(ts[3:]))
		} else {
			pa.T = c35ParseType(ts)
		}
		out = append(out, pa)
	}
	return out
}

func c35ParseResults(s string) []*c35Tx {
	s = strings.TrimSpace(s)
	if s == "" {
		return nil
	}
	p := &c35Parser{s: s}
	return p.results()
}

// c35SplitTop splits at sep occurrences that are not nested in (), [] or {}.
func c35SplitTop(s string, sep byte) []string {
	var out []string
	depth, last := 0, 0
	for i := 0; i < len(s); i++ {
		switch s[i] {
		case '(', '[', '{':
			depth++
		case ')', ']', '}':
			depth--
		default:
			if s[i] == sep && depth == 0 {
				out = append(out, s[last:i])
				last = i + 1
			}
		}
	}
	return append(out, s[last:])
}

// ---------------------------------------------------------------- substitution and context

func (t *c35Tx) subst(m map[string]*c35Tx) *c35Tx {
	if t.K == "id" {
		if r, ok := m[t.Name]; ok {
			return r
		}
		return t
	}
	if len(t.A) == 0 && len(t.R) == 0 {
		return t
	}
	n := *t
	n.A = make([]*c35Tx, len(t.A))
	for i, a := range t.A {
		n.A[i] = a.subst(m)
	}
	if len(t.R) > 0 {
		n.R = make([]*c35Tx, len(t.R))
		for i, a := range t.R {
			n.R[i] = a.subst(m)
		}
	}
	return &n
}

func (t *c35Tx) mentions(names map[string]bool) bool {
	if t.K == "id" {
		return names[t.Name]
	}
	for _, a := range t.A {
		if a.mentions(names) {
			return true
		}
	}
	for _, a := range t.R {
		if a.mentions(names) {
			return true
		}
	}
	return false
}

type c35Named struct {
	Name   string // with §
	Under  *c35Tx
	Double bool   // has method Double() returning its own type
	Decl   string // full declaration text
}

type c35TypeTmpl struct {
	Name  string
	TP    []string
	Body  *c35Tx
	Alias bool
	Rec   bool // refers to itself
}

func (tt *c35TypeTmpl) decl() string {
	eq := ""
	if tt.Alias {
		eq = "= "
	}
	return "type §" + tt.Name + "#[" + strings.Join(tt.TP, ",") + "] " + eq + tt.Body.String() + "\n"
}

type c35Ctx struct {
	Named map[string]*c35Named
	Types map[string]*c35TypeTmpl
}

var c35Basic = map[string][]string{
	"int":        {"3", "-7", "100", "0", "42"},
	"int8":       {"5", "-8", "127", "0", "-128"},
	"int32":      {"'x'", "-5", "0", "70000"},
	"int64":      {"1 << 40", "-9", "0", "77"},
	"uint":       {"4", "0", "99", "12345"},
	"uint8":      {"1", "200", "255", "0"},
	"uint16":     {"9", "65535", "0", "300"},
	"float32":    {"2.5", "-1", "0", "0.1"},
	"float64":    {"1.5", "-0.25", "0", "1e10", "0.1"},
	"complex128": {"1i", "2", "(3 + 4i)", "0"},
	"string":     {`"a"`, `"bc"`, `""`, `"héllo"`, `"z9"`},
	"bool":       {"true", "false"},
}

func c35IsOrderedBasic(n string) bool {
	return n != "bool" && n != "complex128" && c35Basic[n] != nil
}

func c35IsAddBasic(n string) bool { return n != "bool" && c35Basic[n] != nil }

// under resolves named types and generic instances to their underlying structural type.
func (c *c35Ctx) under(t *c35Tx) *c35Tx {
	for k := 0; k < 8; k++ {
		switch t.K {
		case "id":
			if nt := c.Named[t.Name]; nt != nil {
				t = nt.Under
				continue
			}
			return t
		case "inst":
			t = c.instBody(t)
			continue
		}
		return t
	}
	return t
}

func (c *c35Ctx) instBody(t *c35Tx) *c35Tx {
	tt := c.Types[t.Name]
	if tt == nil {
		panic("c35: unknown type template " + t.Name)
	}
	m := map[string]*c35Tx{}
	for i, p := range tt.TP {
		m[p] = t.A[i]
	}
	return tt.Body.subst(m)
}

func (c *c35Ctx) cmp(t *c35Tx) bool {
	u := c.under(t)
	switch u.K {
	case "id":
		return c35Basic[u.Name] != nil
	case "ptr", "chan", "iface":
		return true
	case "arr":
		return c.cmp(u.A[0])
	case "struct":
		for _, a := range u.A {
			if !c.cmp(a) {
				return false
			}
		}
		return true
	}
	return false
}

func (c *c35Ctx) ord(t *c35Tx) bool {
	u := c.under(t)
	return u.K == "id" && c35IsOrderedBasic(u.Name)
}

func (c *c35Ctx) add(t *c35Tx) bool {
	u := c.under(t)
	return u.K == "id" && c35IsAddBasic(u.Name)
}

func (c *c35Ctx) hasX(t *c35Tx) bool {
	u := c.under(t)
	if u.K == "ptr" && t.K == "ptr" {
		u = c.under(u.A[0])
	}
	if u.K != "struct" {
		return false
	}
	for i, f := range u.F {
		if f == "X" && u.A[i].K == "id" && u.A[i].Name == "int" {
			return true
		}
	}
	return false
}

func (c *c35Ctx) double(t *c35Tx) bool {
	return t.K == "id" && c.Named[t.Name] != nil && c.Named[t.Name].Double
}

func (c *c35Ctx) lenOK(t *c35Tx) bool {
	u := c.under(t)
	switch u.K {
	case "slice", "map", "arr", "chan":
		return true
	case "id":
		return u.Name == "string"
	}
	return false
}

// recable: a value of the type can be handed to rec() with the same rendering on both sides:
// no instance of a recursive template (the interpreter emulates recursive types, a documented limitation).
func (c *c35Ctx) recable(t *c35Tx) bool {
	if t.K == "inst" {
		if tt := c.Types[t.Name]; tt != nil && tt.Rec {
			return false
		}
	}
	for _, a := range t.A {
		if !c.recable(a) {
			return false
		}
	}
	for _, a := range t.R {
		if !c.recable(a) {
			return false
		}
	}
	return true
}

// assertSafe: usable as the target of a type assertion without touching the documented limitation that
// interpreter-declared named types are emulated by their underlying type.
func (c *c35Ctx) assertSafe(t *c35Tx) bool {
	switch t.K {
	case "id":
		return c35Basic[t.Name] != nil
	case "inst", "iface", "lit":
		return false
	}
	for _, a := range t.A {
		if !c.assertSafe(a) {
			return false
		}
	}
	for _, a := range t.R {
		if !c.assertSafe(a) {
			return false
		}
	}
	return true
}

func (c *c35Ctx) class(t *c35Tx) string {
	switch t.K {
	case "id":
		if c.Named[t.Name] != nil {
			return "named:" + c.under(t).K
		}
		return "basic"
	case "inst":
		return "instance"
	}
	return t.K
}

// ---------------------------------------------------------------- values

// val returns an expression (gomacro syntax) whose static type is exactly t. i selects among the
// basic literals, so that distinct i give distinct values for basic key types.
func (c *c35Ctx) val(rng *rand.Rand, t *c35Tx, i, depth int) string {
	switch t.K {
	case "id":
		if nt := c.Named[t.Name]; nt != nil {
			return c.valAs(rng, t.Name, true, nt.Under, i, depth)
		}
		return c.valAs(rng, t.Name, true, t, i, depth)
	case "inst":
		return c.valAs(rng, t.String(), true, c.instBody(t), i, depth)
	}
	return c.valAs(rng, t.String(), false, t, i, depth)
}

// valAs builds a value of structural type u spelled `spell` (named => conversions are written spell(x)).
func (c *c35Ctx) valAs(rng *rand.Rand, spell string, named bool, u *c35Tx, i, depth int) string {
	conv := func(x string) string {
		if named {
			return spell + "(" + x + ")"
		}
		return "(" + spell + ")(" + x + ")"
	}
	switch u.K {
	case "id":
		if nt := c.Named[u.Name]; nt != nil {
			// named type whose definition is another named type: convert a value of that type
			return conv(c.val(rng, u, i, depth))
		}
		lits := c35Basic[u.Name]
		if lits == nil {
			panic("c35: no literals for " + u.Name)
		}
		return spell + "(" + lits[((i%len(lits))+len(lits))%len(lits)] + ")"
	case "inst":
		return conv(c.val(rng, u, i, depth))
	case "slice":
		if depth > 2 || rng.Intn(8) == 0 {
			return conv("nil")
		}
		n := rng.Intn(4)
		var es []string
		for k := 0; k < n; k++ {
			es = append(es, c.val(rng, u.A[0], i+k, depth+1))
		}
		return spell + "{" + strings.Join(es, ", ") + "}"
	case "arr":
		var es []string
		for k := 0; k < u.N; k++ {
			es = append(es, c.val(rng, u.A[0], i+k, depth+1))
		}
		return spell + "{" + strings.Join(es, ", ") + "}"
	case "map":
		if depth > 2 || rng.Intn(8) == 0 {
			return conv("nil")
		}
		n := 1 + rng.Intn(2)
		if ku := c.under(u.A[0]); ku.K == "id" && ku.Name == "bool" {
			n = 1
		}
		if !c.distinctKeys(u.A[0]) {
			n = 1
		}
		var es []string
		for k := 0; k < n; k++ {
			es = append(es, c.val(rng, u.A[0], i+k, depth+1)+": "+c.val(rng, u.A[1], i+k, depth+1))
		}
		return spell + "{" + strings.Join(es, ", ") + "}"
	case "struct":
		var es []string
		for k, a := range u.A {
			es = append(es, c.val(rng, a, i+k, depth+1))
		}
		return spell + "{" + strings.Join(es, ", ") + "}"
	case "ptr":
		e := u.A[0]
		if depth > 1 || rng.Intn(6) == 0 {
			if named {
				return conv("nil")
			}
			// not (*X)(nil): the interpreter cannot convert nil to a pointer to a recursive type (unrelated defect)
			return fmt.Sprintf("func() *%s { var pn *%s; return pn }()", e.String(), e.String())
		}
		inner := fmt.Sprintf("func() *%s { pv := %s; return &pv }()", e.String(), c.val(rng, e, i, depth+1))
		if named {
			return conv(inner)
		}
		return inner
	case "chan":
		return fmt.Sprintf("make(%s, %d)", spell, 1+rng.Intn(2))
	case "iface":
		switch rng.Intn(3) {
		case 0:
			return "interface{}(int(" + c35Basic["int"][((i%5)+5)%5] + "))"
		case 1:
			return "interface{}(string(" + c35Basic["string"][((i%5)+5)%5] + "))"
		}
		return "interface{}(nil)"
	case "func":
		var b strings.Builder
		b.WriteString("func(")
		for k, a := range u.A {
			if k > 0 {
				b.WriteString(", ")
			}
			if u.Variadic && k == len(u.A)-1 {
				fmt.Fprintf(&b, "q%d ...%s", k, a.A[0].String())
			} else {
				fmt.Fprintf(&b, "q%d %s", k, a.String())
			}
		}
		b.WriteString(")" + c35ResString(u.R) + " { ")
		if len(u.R) > 0 {
			var rs []string
			for _, r := range u.R {
				echo := ""
				for k, a := range u.A {
					if a.String() == r.String() && !(u.Variadic && k == len(u.A)-1) && rng.Intn(2) == 0 {
						echo = fmt.Sprintf("q%d", k)
						break
					}
				}
				if echo == "" {
					echo = c.val(rng, r, i+1, depth+1)
				}
				rs = append(rs, echo)
			}
			b.WriteString("return " + strings.Join(rs, ", ") + " ")
		}
		b.WriteString("}")
		if named {
			return conv(b.String())
		}
		return b.String()
	}
	panic("c35: cannot build a value of " + u.String())
}

// distinctKeys: consecutive val indices give distinct key constants (needed for map literals).
func (c *c35Ctx) distinctKeys(t *c35Tx) bool {
	u := c.under(t)
	switch u.K {
	case "id":
		return c35Basic[u.Name] != nil && u.Name != "bool"
	case "struct", "arr":
		return len(u.A) > 0 && c.distinctKeys(u.A[0])
	}
	return false
}
