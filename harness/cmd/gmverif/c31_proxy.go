package main

// C31 helper: exercising interface proxies with reflection-generated random arguments.

import (
	"errors"
	"fmt"
	"math"
	"math/rand"
	"reflect"
	"strings"
	"unsafe"
)

var c31EmptyIface = reflect.TypeOf((*interface{})(nil)).Elem()
var c31ErrorType = reflect.TypeOf((*error)(nil)).Elem()

// c31Implementers: pointer-to-proxy types found in the tables; used to build non-nil values of interface types.
var c31Implementers []reflect.Type

type c31Gen struct {
	rng   *rand.Rand
	kinds map[string]int // kinds of values generated (coverage)
}

func (g *c31Gen) note(k string) {
	if g.kinds != nil {
		g.kinds[k]++
	}
}

// value returns a random value of exactly type t.
func (g *c31Gen) value(t reflect.Type, depth int) reflect.Value {
	v := reflect.New(t).Elem()
	rng := g.rng
	switch t.Kind() {
	case reflect.Bool:
		v.SetBool(rng.Intn(2) == 0)
		g.note("bool")
	case reflect.Int, reflect.Int8, reflect.Int16, reflect.Int32, reflect.Int64:
		x := int64(rng.Uint64())
		switch rng.Intn(4) {
		case 0:
			x = int64(rng.Intn(7)) - 3
		case 1:
			x >>= uint(rng.Intn(64))
		}
		v.SetInt(reflect.ValueOf(x).Convert(t).Int()) // truncated to the width of t
		g.note("int")
	case reflect.Uint, reflect.Uint8, reflect.Uint16, reflect.Uint32, reflect.Uint64, reflect.Uintptr:
		x := rng.Uint64()
		if rng.Intn(3) == 0 {
			x >>= uint(rng.Intn(64))
		}
		v.SetUint(reflect.ValueOf(x).Convert(t).Uint())
		g.note("uint")
	case reflect.Float32, reflect.Float64:
		var f float64
		switch rng.Intn(6) {
		case 0:
			f = math.NaN()
		case 1:
			f = math.Inf(1 - 2*rng.Intn(2))
		case 2:
			f = math.Copysign(0, -1)
		default:
			f = rng.NormFloat64() * math.Pow(10, float64(rng.Intn(40)-20))
		}
		if t.Kind() == reflect.Float32 {
			f = float64(float32(f))
		}
		v.SetFloat(f)
		g.note("float")
	case reflect.Complex64, reflect.Complex128:
		c := complex(rng.NormFloat64(), rng.NormFloat64())
		if t.Kind() == reflect.Complex64 {
			c = complex128(complex64(c))
		}
		v.SetComplex(c)
		g.note("complex")
	case reflect.String:
		v.SetString(g.str())
		g.note("string")
	case reflect.Slice:
		if rng.Intn(5) == 0 {
			g.note("slice-nil")
			break
		}
		n := rng.Intn(4)
		if depth > 2 {
			n = 0
		}
		s := reflect.MakeSlice(t, n, n+rng.Intn(3))
		for i := 0; i < n; i++ {
			s.Index(i).Set(g.value(t.Elem(), depth+1))
		}
		v.Set(s)
		g.note("slice")
	case reflect.Array:
		n := t.Len()
		if n > 8 {
			n = 8
		}
		if depth <= 2 {
			for i := 0; i < n; i++ {
				v.Index(i).Set(g.value(t.Elem(), depth+1))
			}
		}
		g.note("array")
	case reflect.Map:
		if rng.Intn(5) == 0 {
			g.note("map-nil")
			break
		}
		m := reflect.MakeMap(t)
		switch t.Key().Kind() {
		case reflect.Bool, reflect.Int, reflect.Int8, reflect.Int16, reflect.Int32, reflect.Int64,
			reflect.Uint, reflect.Uint8, reflect.Uint16, reflect.Uint32, reflect.Uint64, reflect.Uintptr, reflect.String:
			if depth <= 2 {
				for i := rng.Intn(3); i > 0; i-- {
					m.SetMapIndex(g.value(t.Key(), depth+1), g.value(t.Elem(), depth+1))
				}
			}
		}
		v.Set(m)
		g.note("map")
	case reflect.Ptr:
		if rng.Intn(6) == 0 {
			g.note("ptr-nil")
			break
		}
		p := reflect.New(t.Elem())
		if depth <= 2 {
			p.Elem().Set(g.value(t.Elem(), depth+1))
		}
		v.Set(p)
		g.note("ptr")
	case reflect.Struct:
		for i := 0; i < t.NumField(); i++ {
			f := t.Field(i)
			if f.PkgPath != "" || depth > 2 {
				continue // unexported fields cannot be set through reflection: left zero
			}
			v.Field(i).Set(g.value(f.Type, depth+1))
		}
		g.note("struct")
	case reflect.Interface:
		if rng.Intn(5) == 0 {
			g.note("iface-nil")
			break
		}
		if t.NumMethod() == 0 {
			var x reflect.Value
			switch rng.Intn(4) {
			case 0:
				x = reflect.ValueOf(int(rng.Int63()))
			case 1:
				x = reflect.ValueOf(g.str())
			case 2:
				x = reflect.ValueOf(new(int))
			default:
				x = reflect.ValueOf([]byte(g.str()))
			}
			v.Set(x)
			g.note("iface-any")
			break
		}
		if c31ErrorType.AssignableTo(t) && t.NumMethod() == 1 && t.Method(0).Name == "Error" && rng.Intn(2) == 0 {
			v.Set(reflect.ValueOf(errors.New(g.str())))
			g.note("iface-error")
			break
		}
		// a fresh proxy object that implements t (never called: only passed through)
		var cands []reflect.Type
		for _, pp := range c31Implementers {
			if pp.Implements(t) {
				cands = append(cands, pp)
				if len(cands) >= 8 {
					break
				}
			}
		}
		if len(cands) > 0 {
			v.Set(reflect.New(cands[rng.Intn(len(cands))].Elem()))
			g.note("iface-impl")
		} else {
			g.note("iface-nil")
		}
	case reflect.Func:
		if rng.Intn(3) == 0 {
			g.note("func-nil")
			break
		}
		id := rng.Int63()
		v.Set(reflect.MakeFunc(t, func([]reflect.Value) []reflect.Value {
			panic(fmt.Sprintf("c31: function argument %d must only be passed through, never called", id))
		}))
		g.note("func")
	case reflect.Chan:
		if rng.Intn(5) == 0 {
			g.note("chan-nil")
			break
		}
		c := reflect.MakeChan(reflect.ChanOf(reflect.BothDir, t.Elem()), rng.Intn(2))
		v.Set(c.Convert(t))
		g.note("chan")
	case reflect.UnsafePointer:
		v.SetPointer(unsafe.Pointer(new(int64)))
		g.note("unsafe-pointer")
	}
	return v
}

func (g *c31Gen) str() string {
	n := g.rng.Intn(12)
	var b strings.Builder
	for i := 0; i < n; i++ {
		switch g.rng.Intn(8) {
		case 0:
			b.WriteRune(rune(0x80 + g.rng.Intn(0x2000)))
		case 1:
			b.WriteByte(byte(g.rng.Intn(256)))
		default:
			b.WriteByte(byte('a' + g.rng.Intn(26)))
		}
	}
	return b.String()
}

// c31FuncWord is the closure pointer held by a func value (reflect's Pointer() is the same for every MakeFunc result).
func c31FuncWord(v reflect.Value) uintptr {
	if v.IsNil() {
		return 0
	}
	if v.CanInterface() {
		i := v.Interface()
		return uintptr((*[2]unsafe.Pointer)(unsafe.Pointer(&i))[1])
	}
	return v.Pointer()
}

// c31Same reports whether b is the very value a: scalars bit-identical, reference kinds the same reference
// (not merely equal contents), aggregates element-wise. "" means identical, otherwise where they differ.
func c31Same(a, b reflect.Value, path string) string {
	if a.IsValid() != b.IsValid() {
		return path + ": validity differs"
	}
	if !a.IsValid() {
		return ""
	}
	if a.Type() != b.Type() {
		return fmt.Sprintf("%s: type %v vs %v", path, a.Type(), b.Type())
	}
	switch a.Kind() {
	case reflect.Bool:
		if a.Bool() != b.Bool() {
			return fmt.Sprintf("%s: %v vs %v", path, a.Bool(), b.Bool())
		}
	case reflect.Int, reflect.Int8, reflect.Int16, reflect.Int32, reflect.Int64:
		if a.Int() != b.Int() {
			return fmt.Sprintf("%s: %d vs %d", path, a.Int(), b.Int())
		}
	case reflect.Uint, reflect.Uint8, reflect.Uint16, reflect.Uint32, reflect.Uint64, reflect.Uintptr:
		if a.Uint() != b.Uint() {
			return fmt.Sprintf("%s: %d vs %d", path, a.Uint(), b.Uint())
		}
	case reflect.Float32, reflect.Float64:
		if math.Float64bits(a.Float()) != math.Float64bits(b.Float()) {
			return fmt.Sprintf("%s: %v vs %v", path, a.Float(), b.Float())
		}
	case reflect.Complex64, reflect.Complex128:
		x, y := a.Complex(), b.Complex()
		if math.Float64bits(real(x)) != math.Float64bits(real(y)) || math.Float64bits(imag(x)) != math.Float64bits(imag(y)) {
			return fmt.Sprintf("%s: %v vs %v", path, x, y)
		}
	case reflect.String:
		if a.String() != b.String() {
			return fmt.Sprintf("%s: %q vs %q", path, a.String(), b.String())
		}
	case reflect.Ptr, reflect.Map, reflect.Chan, reflect.UnsafePointer:
		if a.Pointer() != b.Pointer() {
			return fmt.Sprintf("%s: reference %#x vs %#x", path, a.Pointer(), b.Pointer())
		}
	case reflect.Func:
		if c31FuncWord(a) != c31FuncWord(b) {
			return fmt.Sprintf("%s: different func values", path)
		}
	case reflect.Slice:
		if a.IsNil() != b.IsNil() || a.Len() != b.Len() || a.Cap() != b.Cap() || a.Pointer() != b.Pointer() {
			return fmt.Sprintf("%s: slice header (%#x,%d,%d) vs (%#x,%d,%d)", path, a.Pointer(), a.Len(), a.Cap(), b.Pointer(), b.Len(), b.Cap())
		}
	case reflect.Array:
		for i := 0; i < a.Len(); i++ {
			if d := c31Same(a.Index(i), b.Index(i), fmt.Sprintf("%s[%d]", path, i)); d != "" {
				return d
			}
		}
	case reflect.Struct:
		for i := 0; i < a.NumField(); i++ {
			if d := c31Same(a.Field(i), b.Field(i), path+"."+a.Type().Field(i).Name); d != "" {
				return d
			}
		}
	case reflect.Interface:
		if a.IsNil() != b.IsNil() {
			return path + ": nil-ness of interface differs"
		}
		if !a.IsNil() {
			return c31Same(a.Elem(), b.Elem(), path+".(dyn)")
		}
	}
	return ""
}

// c31Summary is a short printable digest of a value (evidence samples, distinct keys).
func c31Summary(v reflect.Value, depth int) string {
	if !v.IsValid() {
		return "<invalid>"
	}
	switch v.Kind() {
	case reflect.Bool:
		return fmt.Sprint(v.Bool())
	case reflect.Int, reflect.Int8, reflect.Int16, reflect.Int32, reflect.Int64:
		return fmt.Sprint(v.Int())
	case reflect.Uint, reflect.Uint8, reflect.Uint16, reflect.Uint32, reflect.Uint64, reflect.Uintptr:
		return fmt.Sprint(v.Uint())
	case reflect.Float32, reflect.Float64:
		return fmt.Sprint(v.Float())
	case reflect.Complex64, reflect.Complex128:
		return fmt.Sprint(v.Complex())
	case reflect.String:
		return fmt.Sprintf("%q", v.String())
	case reflect.Slice:
		if v.IsNil() {
			return "nil-slice"
		}
		if depth > 1 {
			return fmt.Sprintf("[len %d]", v.Len())
		}
		var parts []string
		for i := 0; i < v.Len(); i++ {
			parts = append(parts, c31Summary(v.Index(i), depth+1))
		}
		return "[" + strings.Join(parts, " ") + "]"
	case reflect.Ptr, reflect.Map, reflect.Chan, reflect.Func, reflect.UnsafePointer:
		if v.IsNil() {
			return "nil-" + v.Kind().String()
		}
		return v.Kind().String()
	case reflect.Interface:
		if v.IsNil() {
			return "nil-iface"
		}
		return "iface(" + v.Elem().Type().String() + ")"
	case reflect.Struct:
		return "struct " + v.Type().String()
	case reflect.Array:
		return "array " + v.Type().String()
	}
	return v.Kind().String()
}

type c31ProxyCall struct {
	Field string
	In    []reflect.Value
}

type c31ProxyResult struct {
	Layout  string // "object-first" (current layout) | "no-object" (old layout) | "bad"
	Issues  []string
	Args    []string // summaries
	Results []string
	Called  []string // fields whose closure ran
}

// c31ProxyTrial calls method number mi of interface it through a fresh proxy object of struct type pt,
// with a recording closure in every func field, and checks that exactly the closure of field <Method>_
// ran once, received Object and the very arguments, and that its results came back unchanged.
func c31ProxyTrial(it, pt reflect.Type, mi int, g *c31Gen) (res c31ProxyResult) {
	m := it.Method(mi)
	pp := reflect.PtrTo(pt)
	res.Layout = "bad"
	if pt.Kind() != reflect.Struct || !pp.Implements(it) {
		res.Issues = append(res.Issues, fmt.Sprintf("*%v does not implement %v", pt, it))
		return
	}
	field, ok := pt.FieldByName(m.Name + "_")
	if !ok || field.Type.Kind() != reflect.Func {
		res.Issues = append(res.Issues, fmt.Sprintf("proxy %v has no func field %s_", pt, m.Name))
		return
	}
	of, ok := pt.FieldByName("Object")
	if !ok || of.Type != c31EmptyIface {
		res.Issues = append(res.Issues, fmt.Sprintf("proxy %v has no field Object interface{}", pt))
		return
	}
	ft := field.Type
	shift := 0
	switch {
	case ft.NumIn() == m.Type.NumIn()+1 && ft.In(0) == c31EmptyIface:
		res.Layout, shift = "object-first", 1
	case ft.NumIn() == m.Type.NumIn():
		res.Layout = "no-object"
	default:
		res.Issues = append(res.Issues, fmt.Sprintf("field %s_ has type %v, method has type %v", m.Name, ft, m.Type))
		return
	}
	for k := 0; k < m.Type.NumIn(); k++ {
		if ft.In(k+shift) != m.Type.In(k) {
			res.Issues = append(res.Issues, fmt.Sprintf("field %s_ parameter %d has type %v, method parameter has type %v", m.Name, k, ft.In(k+shift), m.Type.In(k)))
			return
		}
	}
	if ft.NumOut() != m.Type.NumOut() || ft.IsVariadic() != m.Type.IsVariadic() {
		res.Issues = append(res.Issues, fmt.Sprintf("field %s_ has type %v, method has type %v", m.Name, ft, m.Type))
		return
	}
	p := reflect.New(pt)
	tok := new([2]int64) // the identity of Object
	p.Elem().FieldByIndex(of.Index).Set(reflect.ValueOf(tok))
	var calls []c31ProxyCall
	var want []reflect.Value // results the target closure returns
	for k := 0; k < ft.NumOut(); k++ {
		want = append(want, g.value(ft.Out(k), 0))
	}
	for i := 0; i < pt.NumField(); i++ {
		f := pt.Field(i)
		if f.Type.Kind() != reflect.Func || f.PkgPath != "" {
			continue
		}
		isTarget := f.Name == field.Name
		p.Elem().Field(i).Set(reflect.MakeFunc(f.Type, func(in []reflect.Value) []reflect.Value {
			calls = append(calls, c31ProxyCall{f.Name, append([]reflect.Value{}, in...)})
			if isTarget {
				return want
			}
			out := make([]reflect.Value, f.Type.NumOut())
			for k := range out {
				out[k] = reflect.Zero(f.Type.Out(k))
			}
			return out
		}))
	}
	args := make([]reflect.Value, m.Type.NumIn())
	for k := range args {
		args[k] = g.value(m.Type.In(k), 0)
		res.Args = append(res.Args, c31Summary(args[k], 0))
	}
	for _, w := range want {
		res.Results = append(res.Results, c31Summary(w, 0))
	}
	iv := reflect.New(it).Elem()
	iv.Set(p)
	var got []reflect.Value
	func() {
		defer func() {
			if e := recover(); e != nil {
				res.Issues = append(res.Issues, fmt.Sprintf("calling %s through the interface panicked: %v", m.Name, e))
			}
		}()
		if m.Type.IsVariadic() {
			got = iv.Method(mi).CallSlice(args)
		} else {
			got = iv.Method(mi).Call(args)
		}
	}()
	for _, c := range calls {
		res.Called = append(res.Called, c.Field)
	}
	if len(res.Issues) > 0 {
		return
	}
	if len(calls) != 1 || calls[0].Field != field.Name {
		res.Issues = append(res.Issues, fmt.Sprintf("method %s ran the closures of fields %v, want exactly [%s]", m.Name, res.Called, field.Name))
		return
	}
	in := calls[0].In
	if len(in) != len(args)+shift {
		res.Issues = append(res.Issues, fmt.Sprintf("closure received %d arguments, want %d", len(in), len(args)+shift))
		return
	}
	if shift == 1 {
		o := in[0]
		if o.Kind() != reflect.Interface || o.IsNil() || o.Elem().Kind() != reflect.Ptr || o.Elem().Pointer() != reflect.ValueOf(tok).Pointer() {
			res.Issues = append(res.Issues, "closure did not receive the proxy's Object as first argument")
		}
	}
	for k := range args {
		if d := c31Same(args[k], in[k+shift], fmt.Sprintf("arg%d", k)); d != "" {
			res.Issues = append(res.Issues, "argument changed on the way to the closure: "+d)
		}
	}
	if len(got) != len(want) {
		res.Issues = append(res.Issues, fmt.Sprintf("method returned %d results, closure returned %d", len(got), len(want)))
		return
	}
	for k := range want {
		if d := c31Same(want[k], got[k], fmt.Sprintf("result%d", k)); d != "" {
			res.Issues = append(res.Issues, "result changed on the way back: "+d)
		}
	}
	return
}
