package main

// C17 oracle: an independent free-variable analysis over go/ast (Go scoping rules written out
// by hand), cross-checked identifier by identifier against go/types, plus the executable model of
// the ordering rule stated by the property.

import (
	"fmt"
	"go/ast"
	"go/parser"
	"go/token"
	"go/types"
	"sort"
	"strings"
)

// c17Top is one top-level declared name of a declaration run.
type c17Top struct {
	Kind string // Const Var Type Func Method
	Name string // "Recv.name" for methods
	Off  int    // byte offset of the declared identifier inside the run's text
	// SigBodyShared: a function whose signature and body mention a common identifier (any identifier,
	// `int` included): the input shape needed by the finding C17-recursive-func-deps-corrupted
	SigBodyShared bool
}

// c17Mention is one textual occurrence, inside declaration From, of the name of declaration To.
type c17Mention struct {
	From   int
	To     int
	Free   bool   // true: the occurrence denotes the top-level declaration
	Binder string // when !Free: what shadows it (param result recv litparam litresult localvar localconst localtype shortvar range typeswitch)
	Nest   int    // number of enclosing FuncDecl/FuncType/FuncLit/BlockStmt/StructType/InterfaceType constructs
	BNest  int    // same count at the place where the binder was declared
	Place  string // coverage label: type | init | sig | recvtype | body
	pos    token.Pos
}

type c17Truth struct {
	Tops     []c17Top
	Edges    [][]int // Edges[i] = sorted indices of the other declarations whose name occurs free in i
	Mentions []c17Mention
	Unknown  []string // free names that are neither declared in the run nor predeclared
	fset     *token.FileSet
	file     *ast.File
}

type c17Binder struct {
	kind string
	nest int
}

type c17Scope struct {
	outer *c17Scope
	names map[string]c17Binder
	nest  int
}

func c17NewScope(outer *c17Scope, nest int) *c17Scope {
	return &c17Scope{outer: outer, nest: nest}
}

func (s *c17Scope) declare(id *ast.Ident, kind string, nest int) {
	if id == nil || id.Name == "_" {
		return
	}
	if s.names == nil {
		s.names = map[string]c17Binder{}
	}
	s.names[id.Name] = c17Binder{kind, nest}
}

type c17Walker struct {
	tops    map[string]int
	cur     int
	place   string
	ments   []c17Mention
	unknown map[string]bool
	bad     string
}

var c17Universe = func() map[string]bool {
	m := map[string]bool{}
	for _, n := range types.Universe.Names() {
		m[n] = true
	}
	return m
}()

func (w *c17Walker) unsupported(n interface{}) {
	if w.bad == "" {
		w.bad = fmt.Sprintf("unsupported node %T", n)
	}
}

func (w *c17Walker) use(id *ast.Ident, sc *c17Scope, nest int) {
	if id == nil || id.Name == "_" {
		return
	}
	ti, isTop := w.tops[id.Name]
	for s := sc; s != nil; s = s.outer {
		if b, ok := s.names[id.Name]; ok {
			if isTop {
				w.ments = append(w.ments, c17Mention{From: w.cur, To: ti, Binder: b.kind, Nest: nest, BNest: b.nest, Place: w.place, pos: id.Pos()})
			}
			return
		}
	}
	if isTop {
		w.ments = append(w.ments, c17Mention{From: w.cur, To: ti, Free: true, Nest: nest, Place: w.place, pos: id.Pos()})
		return
	}
	if !c17Universe[id.Name] {
		w.unknown[id.Name] = true
	}
}

func (w *c17Walker) exprs(l []ast.Expr, sc *c17Scope, nest int) {
	for _, e := range l {
		w.expr(e, sc, nest)
	}
}

// funcSig resolves the parameter and result TYPES of a signature (the names are not uses, and
// their scope is the function body, not the signature).
func (w *c17Walker) funcSig(ft *ast.FuncType, sc *c17Scope, nest int) {
	if ft == nil {
		return
	}
	if ft.TypeParams != nil {
		w.unsupported(ft.TypeParams)
	}
	for _, fl := range []*ast.FieldList{ft.Params, ft.Results} {
		if fl == nil {
			continue
		}
		for _, f := range fl.List {
			w.expr(f.Type, sc, nest)
		}
	}
}

func (w *c17Walker) declareSig(ft *ast.FuncType, sc *c17Scope, pkind, rkind string, nest int) {
	if ft.Params != nil {
		for _, f := range ft.Params.List {
			for _, id := range f.Names {
				sc.declare(id, pkind, nest)
			}
		}
	}
	if ft.Results != nil {
		for _, f := range ft.Results.List {
			for _, id := range f.Names {
				sc.declare(id, rkind, nest)
			}
		}
	}
}

func (w *c17Walker) expr(e ast.Expr, sc *c17Scope, nest int) {
	switch e := e.(type) {
	case nil:
	case *ast.Ident:
		w.use(e, sc, nest)
	case *ast.BasicLit:
	case *ast.ParenExpr:
		w.expr(e.X, sc, nest)
	case *ast.UnaryExpr:
		w.expr(e.X, sc, nest)
	case *ast.StarExpr:
		w.expr(e.X, sc, nest)
	case *ast.BinaryExpr:
		w.expr(e.X, sc, nest)
		w.expr(e.Y, sc, nest)
	case *ast.CallExpr:
		w.expr(e.Fun, sc, nest)
		w.exprs(e.Args, sc, nest)
	case *ast.IndexExpr:
		w.expr(e.X, sc, nest)
		w.expr(e.Index, sc, nest)
	case *ast.SliceExpr:
		w.expr(e.X, sc, nest)
		w.expr(e.Low, sc, nest)
		w.expr(e.High, sc, nest)
		w.expr(e.Max, sc, nest)
	case *ast.SelectorExpr:
		w.expr(e.X, sc, nest) // the selector itself is a field or method, never a top-level name
	case *ast.TypeAssertExpr:
		w.expr(e.X, sc, nest)
		w.expr(e.Type, sc, nest)
	case *ast.CompositeLit:
		w.expr(e.Type, sc, nest)
		keysAreExprs := false
		switch e.Type.(type) {
		case *ast.ArrayType, *ast.MapType:
			keysAreExprs = true
		case nil:
			w.unsupported("composite literal with elided type")
		}
		for _, el := range e.Elts {
			if kv, ok := el.(*ast.KeyValueExpr); ok {
				if _, isId := kv.Key.(*ast.Ident); !isId || keysAreExprs {
					w.expr(kv.Key, sc, nest)
				}
				w.expr(kv.Value, sc, nest)
			} else {
				w.expr(el, sc, nest)
			}
		}
	case *ast.FuncLit:
		w.funcSig(e.Type, sc, nest+1)
		fs := c17NewScope(sc, nest+1)
		w.declareSig(e.Type, fs, "litparam", "litresult", nest+1)
		w.stmts(e.Body.List, fs, nest+1)
	case *ast.ArrayType:
		w.expr(e.Len, sc, nest)
		w.expr(e.Elt, sc, nest)
	case *ast.MapType:
		w.expr(e.Key, sc, nest)
		w.expr(e.Value, sc, nest)
	case *ast.ChanType:
		w.expr(e.Value, sc, nest)
	case *ast.Ellipsis:
		w.expr(e.Elt, sc, nest)
	case *ast.FuncType:
		w.funcSig(e, sc, nest+1)
	case *ast.StructType:
		for _, f := range e.Fields.List {
			w.expr(f.Type, sc, nest+1) // field names are not uses
		}
	case *ast.InterfaceType:
		for _, f := range e.Methods.List {
			w.expr(f.Type, sc, nest+1)
		}
	default:
		w.unsupported(e)
	}
}

func (w *c17Walker) stmts(l []ast.Stmt, sc *c17Scope, nest int) {
	for _, s := range l {
		w.stmt(s, sc, nest)
	}
}

func (w *c17Walker) block(b *ast.BlockStmt, sc *c17Scope, nest int) {
	if b != nil {
		w.stmts(b.List, c17NewScope(sc, nest+1), nest+1)
	}
}

func (w *c17Walker) define(lhs []ast.Expr, sc *c17Scope, kind string, nest int) {
	for _, l := range lhs {
		id, ok := l.(*ast.Ident)
		if !ok {
			w.unsupported(l)
			continue
		}
		if _, again := sc.names[id.Name]; again {
			continue // redeclaration in the same scope: assigns the existing local
		}
		sc.declare(id, kind, nest)
	}
}

func (w *c17Walker) stmt(s ast.Stmt, sc *c17Scope, nest int) {
	switch s := s.(type) {
	case nil:
	case *ast.EmptyStmt:
	case *ast.ExprStmt:
		w.expr(s.X, sc, nest)
	case *ast.AssignStmt:
		if s.Tok == token.DEFINE {
			w.exprs(s.Rhs, sc, nest)
			w.define(s.Lhs, sc, "shortvar", nest)
		} else {
			w.exprs(s.Lhs, sc, nest)
			w.exprs(s.Rhs, sc, nest)
		}
	case *ast.DeclStmt:
		gd, ok := s.Decl.(*ast.GenDecl)
		if !ok {
			w.unsupported(s.Decl)
			return
		}
		for _, spec := range gd.Specs {
			switch spec := spec.(type) {
			case *ast.ValueSpec:
				w.expr(spec.Type, sc, nest)
				w.exprs(spec.Values, sc, nest)
				kind := "localvar"
				if gd.Tok == token.CONST {
					kind = "localconst"
				}
				for _, id := range spec.Names {
					sc.declare(id, kind, nest)
				}
			case *ast.TypeSpec:
				if spec.TypeParams != nil {
					w.unsupported(spec.TypeParams)
				}
				sc.declare(spec.Name, "localtype", nest)
				w.expr(spec.Type, sc, nest)
			default:
				w.unsupported(spec)
			}
		}
	case *ast.ReturnStmt:
		w.exprs(s.Results, sc, nest)
	case *ast.IncDecStmt:
		w.expr(s.X, sc, nest)
	case *ast.GoStmt:
		w.expr(s.Call, sc, nest)
	case *ast.DeferStmt:
		w.expr(s.Call, sc, nest)
	case *ast.SendStmt:
		w.expr(s.Chan, sc, nest)
		w.expr(s.Value, sc, nest)
	case *ast.BranchStmt:
		if s.Label != nil {
			w.unsupported("label")
		}
	case *ast.BlockStmt:
		w.block(s, sc, nest)
	case *ast.IfStmt:
		is := c17NewScope(sc, nest)
		w.stmt(s.Init, is, nest)
		w.expr(s.Cond, is, nest)
		w.block(s.Body, is, nest)
		w.stmt(s.Else, is, nest)
	case *ast.ForStmt:
		fs := c17NewScope(sc, nest)
		w.stmt(s.Init, fs, nest)
		w.expr(s.Cond, fs, nest)
		w.stmt(s.Post, fs, nest)
		w.block(s.Body, fs, nest)
	case *ast.RangeStmt:
		w.expr(s.X, sc, nest)
		rs := c17NewScope(sc, nest)
		if s.Tok == token.DEFINE {
			var lhs []ast.Expr
			if s.Key != nil {
				lhs = append(lhs, s.Key)
			}
			if s.Value != nil {
				lhs = append(lhs, s.Value)
			}
			w.define(lhs, rs, "range", nest)
		} else {
			w.expr(s.Key, sc, nest)
			w.expr(s.Value, sc, nest)
		}
		w.block(s.Body, rs, nest)
	case *ast.SwitchStmt:
		ss := c17NewScope(sc, nest)
		w.stmt(s.Init, ss, nest)
		w.expr(s.Tag, ss, nest)
		for _, c := range s.Body.List {
			cc, ok := c.(*ast.CaseClause)
			if !ok {
				w.unsupported(c)
				continue
			}
			w.exprs(cc.List, ss, nest+1)
			w.stmts(cc.Body, c17NewScope(ss, nest+1), nest+1)
		}
	case *ast.TypeSwitchStmt:
		ss := c17NewScope(sc, nest)
		w.stmt(s.Init, ss, nest)
		var binder *ast.Ident
		switch a := s.Assign.(type) {
		case *ast.ExprStmt:
			w.expr(a.X, ss, nest)
		case *ast.AssignStmt:
			w.exprs(a.Rhs, ss, nest)
			if len(a.Lhs) == 1 {
				binder, _ = a.Lhs[0].(*ast.Ident)
			}
		default:
			w.unsupported(s.Assign)
		}
		for _, c := range s.Body.List {
			cc, ok := c.(*ast.CaseClause)
			if !ok {
				w.unsupported(c)
				continue
			}
			w.exprs(cc.List, ss, nest+1)
			cs := c17NewScope(ss, nest+1)
			cs.declare(binder, "typeswitch", nest+1)
			w.stmts(cc.Body, cs, nest+1)
		}
	case *ast.SelectStmt:
		for _, c := range s.Body.List {
			cc, ok := c.(*ast.CommClause)
			if !ok {
				w.unsupported(c)
				continue
			}
			cs := c17NewScope(sc, nest+1)
			switch comm := cc.Comm.(type) {
			case *ast.AssignStmt:
				w.exprs(comm.Rhs, cs, nest+1)
				if comm.Tok == token.DEFINE {
					w.define(comm.Lhs, cs, "shortvar", nest+1)
				} else {
					w.exprs(comm.Lhs, cs, nest+1)
				}
			default:
				w.stmt(cc.Comm, cs, nest+1)
			}
			w.stmts(cc.Body, cs, nest+1)
		}
	default:
		w.unsupported(s)
	}
}

func c17RecvBase(e ast.Expr) string {
	for {
		switch x := e.(type) {
		case *ast.StarExpr:
			e = x.X
		case *ast.ParenExpr:
			e = x.X
		case *ast.Ident:
			return x.Name
		default:
			return ""
		}
	}
}

const c17Prelude = "package p\n"

// c17Analyse parses one declaration run with the standard library parser and computes the true
// dependency edges.
func c17Analyse(text string) (*c17Truth, error) {
	fset := token.NewFileSet()
	f, err := parser.ParseFile(fset, "run.go", c17Prelude+text, parser.SkipObjectResolution)
	if err != nil {
		return nil, fmt.Errorf("reference parser: %v", err)
	}
	base := fset.File(f.Pos()).Base() + len(c17Prelude)
	off := func(p token.Pos) int { return int(p) - base }
	t := &c17Truth{fset: fset, file: f}
	type item struct {
		spec ast.Spec
		fn   *ast.FuncDecl
		tok  token.Token
	}
	var items []item
	for _, d := range f.Decls {
		switch d := d.(type) {
		case *ast.GenDecl:
			for _, spec := range d.Specs {
				switch spec := spec.(type) {
				case *ast.ValueSpec:
					if len(spec.Names) != 1 || len(spec.Values) > 1 {
						return nil, fmt.Errorf("oracle supports single-name specs only")
					}
					kind := "Var"
					if d.Tok == token.CONST {
						kind = "Const"
						if len(spec.Values) == 0 {
							return nil, fmt.Errorf("oracle does not support implicit constant repetition")
						}
					}
					t.Tops = append(t.Tops, c17Top{Kind: kind, Name: spec.Names[0].Name, Off: off(spec.Names[0].Pos())})
				case *ast.TypeSpec:
					if spec.TypeParams != nil {
						return nil, fmt.Errorf("oracle does not support generics")
					}
					t.Tops = append(t.Tops, c17Top{Kind: "Type", Name: spec.Name.Name, Off: off(spec.Name.Pos())})
				default:
					return nil, fmt.Errorf("unexpected spec %T in a declaration run", spec)
				}
				items = append(items, item{spec: spec, tok: d.Tok})
			}
		case *ast.FuncDecl:
			if d.Recv != nil && len(d.Recv.List) == 1 {
				b := c17RecvBase(d.Recv.List[0].Type)
				if b == "" {
					return nil, fmt.Errorf("unsupported receiver")
				}
				t.Tops = append(t.Tops, c17Top{Kind: "Method", Name: b + "." + d.Name.Name, Off: off(d.Name.Pos())})
			} else {
				sig := map[string]bool{}
				ast.Inspect(d.Type, func(n ast.Node) bool {
					if id, ok := n.(*ast.Ident); ok {
						sig[id.Name] = true
					}
					return true
				})
				shared := false
				if d.Body != nil {
					ast.Inspect(d.Body, func(n ast.Node) bool {
						if id, ok := n.(*ast.Ident); ok && sig[id.Name] {
							shared = true
						}
						return true
					})
				}
				t.Tops = append(t.Tops, c17Top{"Func", d.Name.Name, off(d.Name.Pos()), shared})
			}
			items = append(items, item{fn: d})
		default:
			return nil, fmt.Errorf("unexpected declaration %T", d)
		}
	}
	w := &c17Walker{tops: map[string]int{}, unknown: map[string]bool{}}
	for i, tp := range t.Tops {
		if _, dup := w.tops[tp.Name]; dup {
			return nil, fmt.Errorf("duplicate name %s", tp.Name)
		}
		w.tops[tp.Name] = i
	}
	for i, it := range items {
		w.cur = i
		switch {
		case it.fn != nil:
			d := it.fn
			if d.Recv != nil {
				w.place = "recvtype"
				for _, fld := range d.Recv.List {
					w.expr(fld.Type, nil, 1)
				}
			}
			w.place = "sig"
			w.funcSig(d.Type, nil, 2)
			if d.Body != nil {
				w.place = "body"
				fs := c17NewScope(nil, 2)
				if d.Recv != nil {
					for _, fld := range d.Recv.List {
						for _, id := range fld.Names {
							fs.declare(id, "recv", 1)
						}
					}
				}
				w.declareSig(d.Type, fs, "param", "result", 2)
				w.stmts(d.Body.List, fs, 2)
			}
		default:
			switch spec := it.spec.(type) {
			case *ast.ValueSpec:
				w.place = "type"
				w.expr(spec.Type, nil, 0)
				w.place = "init"
				w.exprs(spec.Values, nil, 0)
			case *ast.TypeSpec:
				w.place = "type"
				w.expr(spec.Type, nil, 0)
			}
		}
	}
	if w.bad != "" {
		return nil, fmt.Errorf("oracle: %s", w.bad)
	}
	t.Mentions = w.ments
	t.Edges = make([][]int, len(t.Tops))
	for i := range t.Edges {
		seen := map[int]bool{}
		for _, m := range w.ments {
			if m.From == i && m.Free && m.To != i && !seen[m.To] {
				seen[m.To] = true
				t.Edges[i] = append(t.Edges[i], m.To)
			}
		}
		sort.Ints(t.Edges[i])
	}
	for n := range w.unknown {
		t.Unknown = append(t.Unknown, n)
	}
	sort.Strings(t.Unknown)
	return t, nil
}

// c17CrossCheck compares every identifier resolution of the hand-written analysis with go/types.
// It returns the number of identifiers confirmed, the number go/types had no opinion about, and a
// description of the first disagreement ("" when none).
func c17CrossCheck(t *c17Truth) (confirmed, unverified int, disagreement string) {
	var aux strings.Builder
	aux.WriteString("package p\n")
	for _, n := range t.Unknown {
		if n[0] >= 'A' && n[0] <= 'Z' {
			fmt.Fprintf(&aux, "type %s struct{ f int }\n", n)
		} else {
			fmt.Fprintf(&aux, "var %s int\n", n)
		}
	}
	af, err := parser.ParseFile(t.fset, "aux.go", aux.String(), parser.SkipObjectResolution)
	if err != nil {
		return 0, 0, "aux file: " + err.Error()
	}
	info := &types.Info{Uses: map[*ast.Ident]types.Object{}, Defs: map[*ast.Ident]types.Object{}}
	conf := types.Config{Error: func(error) {}}
	pkg, _ := conf.Check("p", t.fset, []*ast.File{t.file, af}, info)
	if pkg == nil {
		return 0, 0, "go/types returned no package"
	}
	tops := map[string]bool{}
	for _, tp := range t.Tops {
		if tp.Kind != "Method" {
			tops[tp.Name] = true
		}
	}
	byPos := map[token.Pos]c17Mention{}
	for _, m := range t.Mentions {
		byPos[m.pos] = m
	}
	auxFile := t.fset.File(af.Pos())
	for id, obj := range info.Uses {
		if t.fset.File(id.Pos()) == auxFile || !tops[id.Name] {
			continue
		}
		m, ok := byPos[id.Pos()]
		isTop := obj.Parent() == pkg.Scope()
		switch {
		case !ok && isTop:
			return confirmed, unverified, fmt.Sprintf("go/types resolves %s at %v to the package-level object but the analysis recorded no occurrence", id.Name, t.fset.Position(id.Pos()))
		case !ok:
			if obj.Parent() == nil {
				continue // field or method selected by a selector or a struct literal key
			}
			return confirmed, unverified, fmt.Sprintf("analysis skipped identifier %s at %v", id.Name, t.fset.Position(id.Pos()))
		case m.Free != isTop:
			return confirmed, unverified, fmt.Sprintf("%s at %v: analysis free=%v, go/types package-level=%v", id.Name, t.fset.Position(id.Pos()), m.Free, isTop)
		}
		confirmed++
		delete(byPos, id.Pos())
	}
	unverified = len(byPos)
	return confirmed, unverified, ""
}

// ---------------------------------------------------------------------------------------------
// ordering model

type c17Item struct {
	Kind string   `json:"kind"`
	Name string   `json:"name"`
	Off  int      `json:"off"` // byte offset in the whole input
	Deps []string `json:"deps,omitempty"`
}

// c17SCC returns the component id of every node and the size of every component.
func c17SCC(n int, edges [][]int) (comp []int, size []int) {
	comp = make([]int, n)
	index := make([]int, n)
	low := make([]int, n)
	on := make([]bool, n)
	for i := range index {
		index[i] = -1
		comp[i] = -1
	}
	var stack []int
	next := 0
	var visit func(v int)
	visit = func(v int) {
		index[v], low[v] = next, next
		next++
		stack = append(stack, v)
		on[v] = true
		for _, u := range edges[v] {
			if index[u] < 0 {
				visit(u)
				if low[u] < low[v] {
					low[v] = low[u]
				}
			} else if on[u] && index[u] < low[v] {
				low[v] = index[u]
			}
		}
		if low[v] == index[v] {
			c := len(size)
			k := 0
			for {
				u := stack[len(stack)-1]
				stack = stack[:len(stack)-1]
				on[u] = false
				comp[u] = c
				k++
				if u == v {
					break
				}
			}
			size = append(size, k)
		}
	}
	for v := 0; v < n; v++ {
		if index[v] < 0 {
			visit(v)
		}
	}
	return
}

type c17Shape struct {
	onCycle      []bool
	nonTypeCycle bool // a cycle made only of non-type declarations: must be reported as a declaration loop
	typeCycle    bool
	mixedCycle   bool // a cycle with both types and non-types: behaviour not specified by the property
}

func c17Classify(tops []c17Top, edges [][]int) c17Shape {
	comp, size := c17SCC(len(tops), edges)
	sh := c17Shape{onCycle: make([]bool, len(tops))}
	hasType := make([]bool, len(size))
	hasOther := make([]bool, len(size))
	for i, c := range comp {
		self := false
		for _, j := range edges[i] {
			self = self || j == i
		}
		if size[c] > 1 || self {
			size[c] += 2 // a self-loop is a cycle too (the true graph never has one: self-references are not dependencies)
			sh.onCycle[i] = true
			if tops[i].Kind == "Type" {
				hasType[c] = true
			} else {
				hasOther[c] = true
			}
		}
	}
	for c := range size {
		switch {
		case hasType[c] && hasOther[c]:
			sh.mixedCycle = true
		case hasType[c]:
			sh.typeCycle = true
		case hasOther[c]:
			sh.nonTypeCycle = true
		}
	}
	return sh
}

// c17CheckOrder replays an observed output of one declaration run against the property:
// (1) every name exactly once, TypeFwd only for types on a cycle and before the type itself;
// (2) every declaration after its dependencies (a forwarded type satisfies type declarations only);
// (3) the declaration emitted is the earliest in the source among those allowed.
// It returns "" or "condN: explanation".
func c17CheckOrder(tops []c17Top, edges [][]int, sh c17Shape, out []c17Item, base int) string {
	n := len(tops)
	byName := map[string]int{}
	for i, tp := range tops {
		byName[tp.Name] = i
	}
	emitted := make([]bool, n)
	fwd := make([]bool, n)
	satisfied := func(i int) bool {
		for _, d := range edges[i] {
			if emitted[d] || (tops[i].Kind == "Type" && fwd[d]) {
				continue
			}
			return false
		}
		return true
	}
	for k, o := range out {
		i, ok := byName[o.Name]
		if !ok {
			return fmt.Sprintf("cond1: output #%d %s %q is not a declared name", k, o.Kind, o.Name)
		}
		if o.Off != base+tops[i].Off {
			return fmt.Sprintf("cond1: output #%d %s %q has position %d, declared at %d", k, o.Kind, o.Name, o.Off, base+tops[i].Off)
		}
		if o.Kind == "TypeFwd" {
			switch {
			case tops[i].Kind != "Type":
				return fmt.Sprintf("cond1: forward declaration of non-type %q", o.Name)
			case emitted[i]:
				return fmt.Sprintf("cond1: forward declaration of %q after the type itself", o.Name)
			case fwd[i]:
				return fmt.Sprintf("cond1: %q forwarded twice", o.Name)
			case !sh.onCycle[i]:
				return fmt.Sprintf("cond1: forward declaration of %q which is on no dependency cycle", o.Name)
			}
			fwd[i] = true
			continue
		}
		if o.Kind != tops[i].Kind {
			return fmt.Sprintf("cond1: %q reported as %s, declared as %s", o.Name, o.Kind, tops[i].Kind)
		}
		if emitted[i] {
			return fmt.Sprintf("cond1: %q returned twice", o.Name)
		}
		if !satisfied(i) {
			var miss []string
			for _, d := range edges[i] {
				if !emitted[d] && !(tops[i].Kind == "Type" && fwd[d]) {
					miss = append(miss, tops[d].Name)
				}
			}
			return fmt.Sprintf("cond2: %q placed before its dependencies %v", o.Name, miss)
		}
		for j := 0; j < n; j++ {
			if !emitted[j] && j != i && tops[j].Off < tops[i].Off && satisfied(j) {
				return fmt.Sprintf("cond3: %q taken while %q (earlier in the source) was allowed", o.Name, tops[j].Name)
			}
		}
		emitted[i] = true
	}
	for i := range emitted {
		if !emitted[i] {
			return fmt.Sprintf("cond1: %q missing from the output", tops[i].Name)
		}
	}
	return ""
}
