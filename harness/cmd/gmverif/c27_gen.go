package main

// C27 — generator of multi-chunk sources with error tokens at generator-known positions.
//
// A source is a sequence of lines grouped in "items". Filler items carry no
// token (blank lines, // comments, /* */ comments alone on their lines); statement
// items start at the beginning of a line, are complete statements (so the REPL reader
// ends a chunk at their last line) and may be preceded ON THE SAME LINE by a
// comment, possibly a multi-line one. The ground truth of every position is
// derived from byte offsets in the generated text only (line = 1 + number of '\n'
// before the offset, column = 1 + bytes since the last '\n'), never from go/token.

import (
	"fmt"
	"math/rand"
	"strings"
)

type c27Stop struct {
	Accept []int  `json:"accept"` // acceptable byte offsets (token starts of the statement)
	What   string `json:"what"`
}

type c27Site struct {
	Kind    string    `json:"kind"`    // construct name
	Class   string    `json:"class"`   // undef | type | syntax | panic | debug
	Wrap    string    `json:"wrap"`    // wrapper name
	Accept  []int     `json:"accept"`  // acceptable byte offsets of the reported position
	Exact   bool      `json:"exact"`   // Accept has exactly one element: the offending token is unambiguous
	HasMsg  bool      `json:"has_msg"` // evaluating the item prints / returns one error message
	Item    int       `json:"item"`    // statement item holding the positions
	Stops   []c27Stop `json:"stops,omitempty"`
	CallArg int       `json:"call_arg,omitempty"`
}

type c27Source struct {
	Prefix   string    `json:"prefix"`
	Text     string    `json:"text"`
	Sites    []c27Site `json:"sites"`
	LeadNL   []int     `json:"lead_nl"`   // per statement item: newlines in the comment that precedes its first token on the same chunk
	ItemOff  []int     `json:"item_off"`  // per statement item: byte offset of its first line
	ChunkOff []int     `json:"chunk_off"` // byte offsets where the hand-made chunks of mode "pep" start
	Features []string  `json:"features"`
	Debugger bool      `json:"debugger"` // run with OptDebugger
}

var c27LineComments = []string{"// plain", "// with \"quote", "// with `backtick", "// it's", "// /* not a block", "// { ( [ unbalanced", "//", "// héllo ∑ wörld", "// ) ] }", "//\tx := undefined_in_comment"}
var c27BlockOne = []string{"/* c */", "/* \" ' ` */", "/* // */", "/* { ( */", "/**/", "/* ∑é */", "/* undefined_in_comment */"}
var c27BlockMulti = []string{"/* a\n b */", "/* \"\n ' \n ` */", "/*\n\n*/", "/* // x\n // y */", "/* {\n ( */", "/* é\n\t∑ */", "/*\n * doc\n * comment\n */"}
var c27Indents = []string{"", "", " ", "  ", "\t", "\t\t", "    ", " \t"}

type c27b struct {
	sb      strings.Builder
	rng     *rand.Rand
	src     *c27Source
	n       int // name counter
	feats   map[string]bool
	itemEnd []int
}

func (b *c27b) off() int               { return b.sb.Len() }
func (b *c27b) w(s string)             { b.sb.WriteString(s) }
func (b *c27b) pick(l []string) string { return l[b.rng.Intn(len(l))] }
func (b *c27b) feat(f string) {
	if !b.feats[f] {
		b.feats[f] = true
		b.src.Features = append(b.src.Features, f)
	}
}
func (b *c27b) name(stem string) string {
	b.n++
	return fmt.Sprintf("%s%s%d", b.src.Prefix, stem, b.n)
}

// toks writes the tokens separated by one or two blanks ("^" in front of a token = glue it
// to the previous one) and returns the byte offset of each.
func (b *c27b) toks(ts ...string) []int {
	offs := make([]int, len(ts))
	for i, t := range ts {
		glue := strings.HasPrefix(t, "^")
		if glue {
			t = t[1:]
		} else if i > 0 {
			if b.rng.Intn(6) == 0 {
				b.w("  ")
			} else {
				b.w(" ")
			}
		}
		offs[i] = b.off()
		b.w(t)
	}
	return offs
}

func (b *c27b) filler() {
	switch b.rng.Intn(7) {
	case 0:
		b.w("\n")
		b.feat("blank-line")
	case 1:
		b.w(b.pick([]string{" ", "\t", "   \t"}) + "\n")
		b.feat("blank-line")
	case 2, 3:
		b.w(b.pick(c27Indents) + b.pick(c27LineComments) + "\n")
		b.feat("line-comment")
	case 4:
		b.w(b.pick(c27Indents) + b.pick(c27BlockOne) + "\n")
		b.feat("block-comment")
	case 5:
		b.w(b.pick(c27Indents) + b.pick(c27BlockMulti) + "\n")
		b.feat("multiline-block-comment")
	case 6:
		b.w(b.pick(c27BlockOne) + " " + b.pick(c27LineComments) + "\n")
		b.feat("block-comment")
	}
}

func (b *c27b) fillers(max int) {
	for n := b.rng.Intn(max + 1); n > 0; n-- {
		b.filler()
	}
}

// beginItem starts a statement item: optional comment/indent in front of the first token.
// allowMulti permits a multi-line comment that ends on the line of the first token.
func (b *c27b) beginItem(allowMulti bool) int {
	item := len(b.src.LeadNL)
	b.src.ItemOff = append(b.src.ItemOff, b.off())
	lead := 0
	switch k := b.rng.Intn(12); {
	case k < 7:
		b.w(b.pick(c27Indents))
	case k < 11:
		b.w(b.pick(c27Indents) + b.pick(c27BlockOne) + " ")
		b.feat("lead-comment-same-line")
	case allowMulti:
		c := b.pick(c27BlockMulti)
		if b.rng.Intn(4) == 0 {
			c += " " + b.pick(c27BlockMulti)
		}
		lead = strings.Count(c, "\n")
		b.w(b.pick(c27Indents) + c + b.pick([]string{" ", "", "\t"}))
		b.feat("lead-multiline-comment-same-chunk")
	}
	b.src.LeadNL = append(b.src.LeadNL, lead)
	return item
}

// endItem finishes the line(s) of a statement item.
func (b *c27b) endItem() {
	switch b.rng.Intn(10) {
	case 0, 1:
		b.w(" " + b.pick(c27LineComments))
		b.feat("trailing-line-comment")
	case 2:
		b.w(" " + b.pick(c27BlockOne))
	case 3:
		b.w(" " + b.pick(c27BlockMulti))
		b.feat("trailing-multiline-comment")
	case 4:
		b.w(";")
	case 5:
		b.w(" ")
	}
	b.w("\n")
	b.itemEnd = append(b.itemEnd, b.off())
}

// validItem emits one complete, valid statement item.
func (b *c27b) validItem() {
	b.beginItem(true)
	p := b.src.Prefix
	switch b.rng.Intn(14) {
	case 0:
		b.w(fmt.Sprintf("%s := %d", b.name("v"), b.rng.Intn(100)))
	case 1:
		b.w(fmt.Sprintf("var %s = \"str // with /* markers ` ' \"", b.name("v")))
		b.feat("string-with-comment-markers")
	case 2:
		b.w(fmt.Sprintf("%s := `raw%s`", b.name("v"), strings.Repeat("\n  line \" // /*", 1+b.rng.Intn(3))))
		b.feat("multiline-raw-string")
	case 3:
		b.w(fmt.Sprintf("func %s(a int) int {\n\t// c\n\n\treturn a + %d\n}", b.name("f"), b.rng.Intn(9)))
		b.feat("multiline-func")
	case 4:
		b.w(fmt.Sprintf("%s := []int{\n\t1,\n\t2, // c\n}", b.name("v")))
		b.feat("multiline-composite")
	case 5:
		b.w(fmt.Sprintf("%s := 1 %s\n\t2", b.name("v"), b.pick([]string{"+", "*", "-", "|", "<<"})))
		b.feat("line-ending-in-operator")
	case 6:
		b.w(fmt.Sprintf("if %si > 0 {\n\t%si++\n} else {\n\t%si--\n}", p, p, p))
		b.feat("multiline-if")
	case 7:
		b.w(fmt.Sprintf("type %s struct {\n\tA int\n\tB string `tag:\"x\"`\n}", b.name("T")))
		b.feat("multiline-type")
	case 8:
		b.w(fmt.Sprintf("%s := '\\''; %s := '\"'; %s := \"a`b'c\"", b.name("v"), b.name("v"), b.name("v")))
		b.feat("quotes-in-literals")
	case 9:
		a, c := b.name("v"), b.name("v")
		b.w(fmt.Sprintf("%s, %s := 1, 2; %s := %s + %s", a, c, b.name("v"), a, c))
		b.feat("several-statements-per-line")
	case 10:
		b.w(fmt.Sprintf("for i := 0; i < 3; i++ {\n\t%si += i\n}", p))
		b.feat("multiline-for")
	case 11:
		b.w(fmt.Sprintf("switch %si {\ncase 1:\n\t%si = 2\ndefault:\n}", p, p))
		b.feat("multiline-switch")
	case 12:
		b.w(fmt.Sprintf("%s := map[string]int{\"a\": 1,\n\t\"b\": 2}", b.name("v")))
		b.feat("multiline-composite")
	case 13:
		b.w(fmt.Sprintf("%s := \"héllo ∑\"", b.name("v")))
		b.feat("non-ascii")
	}
	b.endItem()
}

type c27Construct struct {
	name   string
	class  string
	expr   bool // can be used as an operand
	top    bool // only meaningful as a top-level statement of its own chunk
	needs  bool // needs the prelude variables
	exact  int  // index of the unambiguous offending token, or -1
	tokens func(b *c27b) []string
}

func c27Constructs() []c27Construct {
	pv := func(b *c27b, s string) string { return b.src.Prefix + s }
	return []c27Construct{
		{"undef", "undef", true, false, false, 0, func(b *c27b) []string { return []string{b.name("undef")} }},
		{"undef-operand", "undef", true, false, true, 2, func(b *c27b) []string { return []string{pv(b, "i"), "+", b.name("undef")} }},
		{"undef-call", "undef", true, false, true, 0, func(b *c27b) []string { return []string{b.name("undef"), "^(", "^" + pv(b, "i"), "^)"} }},
		{"undef-type", "undef", false, false, false, 2, func(b *c27b) []string { return []string{"var", b.name("w"), b.name("Undef")} }},
		{"add", "type", true, false, true, -1, func(b *c27b) []string { return []string{pv(b, "i"), "+", pv(b, "s")} }},
		{"assign", "type", false, false, true, -1, func(b *c27b) []string { return []string{pv(b, "i"), "=", pv(b, "s")} }},
		{"selector", "type", true, false, true, -1, func(b *c27b) []string { return []string{pv(b, "i"), "^.", "^foo"} }},
		{"call-nonfunc", "type", true, false, true, -1, func(b *c27b) []string { return []string{pv(b, "i"), "^(", "^)"} }},
		{"len", "type", true, false, true, -1, func(b *c27b) []string { return []string{"len", "^(", "^" + pv(b, "i"), "^)"} }},
		{"vardecl", "type", false, false, true, -1, func(b *c27b) []string { return []string{"var", b.name("w"), "int", "=", pv(b, "s")} }},
		{"complit", "type", false, false, true, -1, func(b *c27b) []string {
			return []string{b.name("w"), ":=", "[", "^]", "^int", "^{", "^" + pv(b, "s"), "^}"}
		}},
		{"if-cond", "type", false, false, true, -1, func(b *c27b) []string { return []string{"if", pv(b, "i"), "{", "}"} }},
		{"deref", "type", true, false, true, -1, func(b *c27b) []string { return []string{"*", "^" + pv(b, "i")} }},
		{"neg", "type", true, false, true, -1, func(b *c27b) []string { return []string{"-", "^" + pv(b, "s")} }},
		{"index", "type", true, false, true, -1, func(b *c27b) []string { return []string{pv(b, "i"), "^[", "^0", "^]"} }},
		{"slice", "type", true, false, true, -1, func(b *c27b) []string { return []string{pv(b, "s"), "^[", "^" + pv(b, "i"), ":", pv(b, "s"), "^]"} }},
		{"assert", "type", true, false, true, -1, func(b *c27b) []string { return []string{pv(b, "i"), "^.", "^(", "^int", "^)"} }},
		{"convert", "type", true, false, true, -1, func(b *c27b) []string { return []string{"int", "^(", "^" + pv(b, "s"), "^)"} }},
		{"multi-assign", "type", false, false, true, -1, func(b *c27b) []string {
			return []string{pv(b, "i"), "^,", pv(b, "s"), "=", pv(b, "s"), "^,", pv(b, "i")}
		}},
		{"syntax-operand", "syntax", false, true, true, 2, func(b *c27b) []string { return []string{pv(b, "i"), "=", "=", "2"} }},
		{"syntax-paren", "syntax", false, true, true, 3, func(b *c27b) []string { return []string{pv(b, "i"), "=", "2", ")"} }},
		{"syntax-bracket", "syntax", false, true, true, 3, func(b *c27b) []string { return []string{pv(b, "i"), "=", "2", "]"} }},
		{"syntax-illegal-char", "syntax", false, true, true, 3, func(b *c27b) []string { return []string{pv(b, "i"), "=", "2", "?"} }},
		{"panic-div", "panic", false, true, true, -1, func(b *c27b) []string { return []string{"_", "=", "10", "/", pv(b, "z")} }},
		{"panic-call", "panic", false, true, false, -1, func(b *c27b) []string { return []string{"panic", "^(", "^\"" + b.name("boom") + "\"", "^)"} }},
		{"panic-index", "panic", false, true, true, -1, func(b *c27b) []string {
			return []string{"_", "=", "[", "^]", "^int", "^{", "^}", "^[", "^" + pv(b, "i"), "^]"}
		}},
	}
}

// errorItem emits a statement item holding construct c inside a random wrapper.
func (b *c27b) errorItem(c c27Construct, simpleOnly bool) c27Site {
	site := c27Site{Kind: c.name, Class: c.class, HasMsg: true}
	type wrap struct {
		name string
		ok   bool
	}
	ws := []wrap{{"plain", true}, {"plain", true}, {"after-statement-same-line", true}, {"after-multiline-comment-same-line", true},
		{"func-body", !c.top && !simpleOnly}, {"block", !c.top && !simpleOnly}, {"composite-literal", c.expr && !simpleOnly}, {"if-else", !c.top && !simpleOnly},
		{"call-args", c.expr && !simpleOnly}}
	var w wrap
	for {
		w = ws[b.rng.Intn(len(ws))]
		if w.ok {
			break
		}
	}
	site.Wrap = w.name
	site.Item = b.beginItem(true)
	emit := func() {
		offs := b.toks(c.tokens(b)...)
		if c.exact >= 0 {
			site.Exact = true
			site.Accept = []int{offs[c.exact]}
		} else {
			site.Accept = offs
		}
	}
	ind := b.pick(c27Indents[2:])
	switch w.name {
	case "plain":
		emit()
	case "after-statement-same-line":
		b.w(fmt.Sprintf("%s := %d; ", b.name("v"), b.rng.Intn(10)))
		emit()
	case "after-multiline-comment-same-line":
		b.w(fmt.Sprintf("%s := %d %s ", b.name("v"), b.rng.Intn(10), b.pick(c27BlockMulti)))
		b.feat("error-after-inner-multiline-comment")
		emit()
	case "func-body":
		b.w(fmt.Sprintf("func %s() {\n%s// c\n%s%s := `x\ny`\n\n%s", b.name("f"), ind, ind, b.name("v"), ind))
		emit()
		b.w(" // c\n}")
	case "block":
		b.w(fmt.Sprintf("{\n%s%s := 1\n%s/* a\n b */\n%s", ind, b.name("v"), ind, ind))
		emit()
		b.w("\n}")
	case "if-else":
		nm := b.name("v")
		b.w(fmt.Sprintf("if %s := 1; %s > 0 {\n%s", nm, nm, ind))
		emit()
		b.w(fmt.Sprintf("\n} else {\n%s// c\n}", ind))
	case "composite-literal":
		b.w(fmt.Sprintf("%s := []interface{}{\n%s1,\n%s`a\nb`, // c\n%s", b.name("v"), ind, ind, ind))
		emit()
		b.w(",\n}")
	case "call-args":
		b.w(fmt.Sprintf("%s := append([]interface{}{},\n%s1, /* c */\n%s", b.name("v"), ind, ind))
		emit()
		b.w(")")
	}
	b.endItem()
	b.feat("wrap:" + w.name)
	return site
}

// debugItems emits a function with a breakpoint, some fillers, and the call that reaches it.
func (b *c27b) debugItems() c27Site {
	site := c27Site{Kind: "breakpoint", Class: "debug", Wrap: "func-body"}
	site.Item = b.beginItem(true)
	f, va, vb := b.name("f"), b.name("a"), b.name("b")
	ind := b.pick(c27Indents[2:])
	b.w(fmt.Sprintf("func %s(a int) int {\n", f))
	if b.rng.Intn(2) == 0 {
		b.w(ind + b.pick(c27LineComments) + "\n")
	}
	b.w(ind)
	if b.rng.Intn(2) == 0 {
		site.Stops = append(site.Stops, c27Stop{b.toks("\"break\""), "breakpoint"})
	} else {
		site.Stops = append(site.Stops, c27Stop{b.toks("_", "=", "\"break\""), "breakpoint"})
	}
	b.w("\n")
	if b.rng.Intn(2) == 0 {
		b.w("\n" + ind + b.pick(c27BlockMulti) + "\n")
	}
	b.w(ind)
	site.Stops = append(site.Stops, c27Stop{b.toks(va, ":=", "a"), "step"})
	b.w("\n")
	if b.rng.Intn(2) == 0 {
		b.w(ind)
		site.Stops = append(site.Stops, c27Stop{b.toks(vb, ":=", "`x\ny`"), "step"})
		b.w(" // c\n")
	}
	b.w(ind)
	site.Stops = append(site.Stops, c27Stop{b.toks("return", "10", "/", va), "step"})
	b.w("\n}")
	b.endItem()
	b.fillers(2)
	for n := b.rng.Intn(3); n > 0; n-- {
		b.validItem()
		b.fillers(1)
	}
	site.CallArg = b.rng.Intn(2)
	site.HasMsg = site.CallArg == 0 // 10/0 panics, the message has no position
	b.beginItem(true)
	b.w(fmt.Sprintf("%s(%d)", f, site.CallArg))
	b.endItem()
	b.src.Debugger = true
	b.feat("debugger-stops")
	return site
}

// c27Gen builds one source. prefix makes every identifier unique among the sources fed to one interpreter.
func c27Gen(rng *rand.Rand, prefix string) *c27Source {
	src := &c27Source{Prefix: prefix}
	b := &c27b{rng: rng, src: src, feats: map[string]bool{}}
	cons := c27Constructs()
	if rng.Intn(5) == 0 {
		b.w("#!/usr/bin/env gomacro\n")
		b.feat("hashbang")
	}
	src.Debugger = rng.Intn(3) == 0
	first := cons[rng.Intn(len(cons))]
	isDebug := rng.Intn(8) == 0
	b.fillers(3)
	if first.needs || isDebug || rng.Intn(2) == 0 {
		b.beginItem(true)
		b.w(fmt.Sprintf("%si, %ss, %sz := 1, \"s\", 0", prefix, prefix, prefix))
		b.endItem()
	} else {
		for first.needs {
			first = cons[rng.Intn(len(cons))]
		}
	}
	havePrelude := len(src.LeadNL) > 0
	for n := rng.Intn(5); n > 0 && havePrelude; n-- {
		b.fillers(2)
		b.validItem()
	}
	b.fillers(3)
	if isDebug {
		src.Sites = append(src.Sites, b.debugItems())
	} else {
		src.Sites = append(src.Sites, b.errorItem(first, false))
	}
	if rng.Intn(2) == 0 {
		// a second error further down: line accounting after a failed chunk
		b.fillers(3)
		for n := rng.Intn(3); n > 0 && havePrelude; n-- {
			b.validItem()
			b.fillers(2)
		}
		b.feat("second-error-after-failed-chunk")
		src.Sites = append(src.Sites, b.errorItem(cons[0], true)) // always "undef": its message names the identifier
	}
	b.fillers(2)
	src.Text = b.sb.String()
	if rng.Intn(6) == 0 && strings.HasSuffix(src.Text, "\n") && !strings.HasSuffix(src.Text, "*/\n") {
		src.Text = src.Text[:len(src.Text)-1]
		b.feat("no-final-newline")
	}
	// hand-made chunks for mode "pep": every statement item together with the fillers in front of it
	src.ChunkOff = []int{0}
	for _, end := range b.itemEnd {
		if end < len(src.Text) {
			src.ChunkOff = append(src.ChunkOff, end)
		}
	}
	return src
}

// c27LineCol is the ground truth: 1-based line and byte column of offset off in text.
func c27LineCol(text string, off int) (line, col int) {
	line = 1 + strings.Count(text[:off], "\n")
	col = off - strings.LastIndexByte(text[:off], '\n')
	return
}

// c27FirstToken returns the offset of the first byte that is neither white space nor inside a comment
// (or the #! line), -1 if there is none.
func c27FirstToken(text string) int {
	i, n := 0, len(text)
	for i < n {
		c := text[i]
		switch {
		case c <= ' ':
			i++
		case (c == '/' && i+1 < n && text[i+1] == '/') || (c == '#' && i+1 < n && text[i+1] == '!'):
			for i < n && text[i] != '\n' {
				i++
			}
		case c == '/' && i+1 < n && text[i+1] == '*':
			j := strings.Index(text[i+2:], "*/")
			if j < 0 {
				return -1
			}
			i += 2 + j + 2
		default:
			return i
		}
	}
	return -1
}
