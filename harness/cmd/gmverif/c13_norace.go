//go:build !race

package main

const c13RaceBuild = false
