package main

import (
	"fmt"
	"os"
	"strings"

	"github.com/cosmos72/gomacro/fast"
	"github.com/cosmos72/gomacro/go/etoken"

	"gmverif/internal/tr"
)

func init() {
	// `gmverif c15repl <file>`: like c14repl but prints the type description of every result
	auxCmds["c15repl"] = func(args []string) {
		data, _ := os.ReadFile(args[0])
		etoken.GENERICS = etoken.GENERICS_V2_CTI
		ir := newQuietInterp()
		hooks := 0
		ir.DeclFunc("hk", func() { hooks++ })
		ir.DeclFunc("rec", func(tag int, v ...interface{}) { hooks += 1000 })
		for i, in := range strings.Split(string(data), "\n;;\n") {
			in = strings.TrimSpace(in)
			var e *fast.Expr
			if r, bad := guard(func() { e = ir.Compile(in) }); bad {
				fmt.Printf("[%d] %s\n    COMPILE ERROR: %s\n", i, c14Clip(in), panicText(r))
				continue
			}
			var out string
			if r, bad := guard(func() {
				vs, ts := ir.RunExpr(e)
				for k, v := range vs {
					if v.IsValid() && v.CanInterface() {
						out += " " + tr.Render(v.Interface())
					}
					if k < len(ts) && ts[k] != nil {
						out += " <" + c15TypeDesc(ts[k]) + ">"
					}
				}
			}); bad {
				fmt.Printf("[%d] %s\n    RUN PANIC: %s\n", i, c14Clip(in), panicText(r))
				continue
			}
			fmt.Printf("[%d] %s\n    =>%s hooks=%d\n", i, c14Clip(in), out, hooks)
		}
	}
}
