package main

// C26 part 3: the same oracles on the chunks handed out by the real callers' entry point fast.Interp.Read
// (what Interp.Repl / ReadParseEvalPrint consume), with and without OptShowPrompt, to make sure the
// options modelled in c26Run are the ones the interpreter really passes.

import (
	"bufio"
	"io"
	"strings"

	"github.com/cosmos72/gomacro/base"
	"github.com/cosmos72/gomacro/fast"
)

func c26InterpRead(ir *fast.Interp, input string, prompt bool) []c26Chunk {
	g := &ir.Comp.Globals
	saveR, saveO, saveE, saveOut := g.Readline, g.Options, g.Stderr, g.Stdout
	defer func() { g.Readline, g.Options, g.Stderr, g.Stdout = saveR, saveO, saveE, saveOut }()
	g.Readline = base.MakeBufReadline(bufio.NewReader(strings.NewReader(input)))
	g.Stderr, g.Stdout = io.Discard, io.Discard
	if prompt {
		g.Options |= base.OptShowPrompt
	} else {
		g.Options &^= base.OptShowPrompt
	}
	g.Line = 0
	var chunks []c26Chunk
	for n := strings.Count(input, "\n") + 4; n > 0; n-- {
		src, first := ir.Read()
		if src == "" && first < 0 {
			break // EOF
		}
		chunks = append(chunks, c26Chunk{Text: src, FirstToken: first})
	}
	return chunks
}

func (cx *c26Ctx) interpPart(inputs []*c26Input, l *c26Local) {
	ir := fast.New()
	for k, in := range inputs {
		prompt := k%2 == 0
		chunks := c26InterpRead(ir, in.input, prompt)
		c := &c26Case{Label: in.label, Input: in.input, Delivery: "bufreadline", Caller: "repl"}
		if prompt {
			c.Caller = "repl-prompt"
		}
		probs, ncmp := in.check(c, chunks, "")
		l.evals += ncmp
		l.cov("delivery", "Interp.Read/"+c.Caller)
		// the direct driver must see the very same chunks, else c26Run does not model the caller
		direct, _ := c26Run(c)
		same := len(direct) == len(chunks)
		for i := 0; same && i < len(chunks); i++ {
			same = direct[i].Text == chunks[i].Text && direct[i].FirstToken == chunks[i].FirstToken
		}
		l.evals++
		if !same {
			cx.r.Inconclusive("Interp.Read returns other chunks than base.ReadMultiline driven with the modelled options: " + c26Describe(c, chunks) + " vs " + c26Describe(c, direct))
		}
		if len(probs) != 0 {
			cx.report(in, c, chunks, probs)
		}
	}
}
