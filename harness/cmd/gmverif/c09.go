package main

// C09 — methods, embedding, interfaces, type assertions and type switches over random type hierarchies.

import (
	"fmt"
	"math/rand"
	"strings"

	"gmverif/internal/fw"
)

func init() { register("C09", "exploration", checkC09) }

var c09FieldNames = []string{"A", "B", "C", "X"}
var c09MethodNames = []string{"M", "N", "Get", "Error", "Len"}

type c09Type struct {
	name    string
	fields  []string // "A int" ...
	embeds  []string // "§T0" or "*§T1"
	methods []string // method names declared (value or pointer receiver recorded in ptrRecv)
	ptrRecv map[string]bool
}

func c09Hierarchy(rng *rand.Rand, feat map[string]int) (decls string, types []*c09Type, ifaces []string) {
	var b strings.Builder
	// one declaration per line group; chunks are split at "\n//--\n"
	n := 3 + rng.Intn(4)
	for i := 0; i < n; i++ {
		t := &c09Type{name: fmt.Sprintf("§T%d", i), ptrRecv: map[string]bool{}}
		// embeds of earlier types (depth grows naturally), by value or pointer
		if i > 0 {
			for e := 0; e < rng.Intn(3); e++ {
				j := rng.Intn(i)
				emb := fmt.Sprintf("§T%d", j)
				dup := false
				for _, x := range t.embeds {
					if strings.TrimPrefix(x, "*") == emb {
						dup = true
					}
				}
				if dup {
					continue
				}
				if rng.Intn(3) == 0 {
					emb = "*" + emb
					feat["embed-pointer"]++
				} else {
					feat["embed-value"]++
				}
				t.embeds = append(t.embeds, emb)
			}
		}
		used := map[string]bool{}
		for f := 0; f < 1+rng.Intn(3); f++ {
			name := c09FieldNames[rng.Intn(len(c09FieldNames))]
			if used[name] {
				continue
			}
			used[name] = true
			t.fields = append(t.fields, name+" "+[]string{"int", "string", "float64"}[rng.Intn(3)])
		}
		fmt.Fprintf(&b, "type %s struct {\n\tK%d int8 // makes the emulated struct type of every named type distinct\n", t.name, i)
		for _, e := range t.embeds {
			fmt.Fprintf(&b, "\t%s\n", e)
		}
		for _, f := range t.fields {
			fmt.Fprintf(&b, "\t%s\n", f)
		}
		b.WriteString("}\n//--\n")
		for m := 0; m < rng.Intn(4); m++ {
			name := c09MethodNames[rng.Intn(len(c09MethodNames))]
			if used[name] {
				continue // a field and a method of one type cannot share a name
			}
			used[name] = true
			t.methods = append(t.methods, name)
			ptr := rng.Intn(3) == 0
			t.ptrRecv[name] = ptr
			recv := "t " + t.name
			if ptr {
				recv = "t *" + t.name
				feat["pointer-receiver"]++
			} else {
				feat["value-receiver"]++
			}
			first := "0"
			if len(t.fields) > 0 {
				fn := strings.Fields(t.fields[0])
				first = "t." + fn[0]
			}
			switch name {
			case "Error":
				fmt.Fprintf(&b, "func (%s) Error() string { return fmt.Sprint(\"%s.Error:\", %s) }\n//--\n", recv, strings.TrimPrefix(t.name, "§"), first)
			case "Len":
				fmt.Fprintf(&b, "func (%s) Len() int { return %d }\n//--\n", recv, 100+i)
			default:
				mut := ""
				if ptr && len(t.fields) > 0 && strings.HasSuffix(t.fields[0], " int") {
					mut = first + "++; "
				}
				fmt.Fprintf(&b, "func (%s) %s(k int) string { %sreturn fmt.Sprint(\"%s.%s:\", k, %s) }\n//--\n", recv, name, mut, strings.TrimPrefix(t.name, "§"), name, first)
			}
		}
		types = append(types, t)
	}
	// interfaces over the method names
	b.WriteString("type §IM interface { M(int) string }\ntype §IMN interface { M(int) string; N(int) string }\ntype §IG interface { Get(int) string }\ntype §IL interface { Len() int; M(int) string }\n//--\n")
	ifaces = []string{"§IM", "§IMN", "§IG", "§IL", "error"}
	return b.String(), types, ifaces
}

func c09Progs(id int, rng *rand.Rand, feat map[string]int) []*Prog {
	decls, types, ifaces := c09Hierarchy(rng, feat)
	var b strings.Builder
	b.WriteString(decls)
	b.WriteString("func §rc(t int) { if r := recover(); r != nil { rec(-t, pcl(r)) } }\n//--\n")
	// a constructor per type that fills embedded pointers so promoted access does not nil-deref (some left nil on purpose)
	for i, t := range types {
		fmt.Fprintf(&b, "func §new%d(seed int) %s {\nvar v %s\n", i, t.name, t.name)
		for _, e := range t.embeds {
			base := strings.TrimPrefix(e, "*§T")
			base = strings.TrimPrefix(base, "§T")
			if strings.HasPrefix(e, "*") {
				if rng.Intn(5) != 0 {
					fmt.Fprintf(&b, "{ x := §new%s(seed + 1); v.§T%s = &x }\n", base, base)
				}
			} else {
				fmt.Fprintf(&b, "v.§T%s = §new%s(seed + 2)\n", base, base)
			}
		}
		for fi, f := range t.fields {
			fn := strings.Fields(f)
			switch fn[1] {
			case "int":
				fmt.Fprintf(&b, "v.%s = seed*10 + %d\n", fn[0], fi)
			case "string":
				fmt.Fprintf(&b, "v.%s = fmt.Sprint(\"s\", seed, %d)\n", fn[0], fi)
			default:
				fmt.Fprintf(&b, "v.%s = float64(seed) + 0.5\n", fn[0])
			}
		}
		b.WriteString("return v\n}\n//--\n")
	}
	typeDecls := b.String()
	tag := 0
	fnsOf := map[string][]string{}
	callsOf := map[string][]string{}
	var kinds []string
	site := func(body string, kind string) {
		tag++
		fn := fmt.Sprintf("func §s%d() {\ndefer §rc(%d)\n%s\n}\n", tag, tag, strings.ReplaceAll(body, "TAG", fmt.Sprint(tag)))
		if !c09Valid(typeDecls + fn) {
			tag--
			return
		}
		feat["site:"+kind]++
		if len(fnsOf[kind]) == 0 {
			kinds = append(kinds, kind)
		}
		fnsOf[kind] = append(fnsOf[kind], fn)
		callsOf[kind] = append(callsOf[kind], fmt.Sprintf("§s%d()", tag))
	}
	for i, t := range types {
		nv := fmt.Sprintf("v := §new%d(%d)\n", i, i+1)
		for _, name := range append(append([]string{}, c09FieldNames...), "§T0", "§T1", "§T2") {
			site(nv+"rec(TAG, v."+name+")", "field-selector")
			site(nv+"p := &v\nrec(TAG, p."+name+")", "field-selector-ptr")
		}
		for _, m := range c09MethodNames {
			arg := "7"
			if m == "Error" || m == "Len" {
				arg = ""
			}
			site(nv+"rec(TAG, v."+m+"("+arg+"))\nrec(TAG, v)", "method-call")
			site(nv+"p := &v\nrec(TAG, p."+m+"("+arg+"))\nrec(TAG, v)", "method-call-ptr")
			site(nv+"f := v."+m+"\nv = §new"+fmt.Sprint(i)+"(9)\nrec(TAG, f("+arg+"))", "method-value")
			site(nv+"f := (&v)."+m+"\nrec(TAG, f("+arg+"), f("+arg+"))\nrec(TAG, v)", "method-value-ptr")
			// a method value taken through a pointer binds a copy of the pointee for value-receiver methods:
			// the receiver is replaced before the call
			site(nv+"p := &v\nf := p."+m+"\nv = §new"+fmt.Sprint(i)+"(9)\nrec(TAG, f("+arg+"))\nrec(TAG, v)", "method-value-ptr-then-replace")
			site(nv+"ps := []*"+t.name+"{&v}\nf := ps[0]."+m+"\n*ps[0] = §new"+fmt.Sprint(i)+"(7)\nrec(TAG, f("+arg+"))", "method-value-ptr-elem-then-replace")
			comma := ", "
			if arg == "" {
				comma = ""
			}
			// both receiver kinds, declared or promoted: go/types keeps the valid ones
			site(nv+"rec(TAG, "+t.name+"."+m+"(v"+comma+arg+"))", "method-expr")
			site(nv+"rec(TAG, (*"+t.name+")."+m+"(&v"+comma+arg+"))\nrec(TAG, v)", "method-expr-ptr")
			site("rec(TAG, §new"+fmt.Sprint(i)+"(3)."+m+"("+arg+"))", "method-on-nonaddressable")
		}
		for _, in := range ifaces {
			call := "i.M(1)"
			switch in {
			case "§IG":
				call = "i.Get(2)"
			case "§IMN":
				call = "i.M(1), i.N(2)"
			case "§IL":
				call = "i.Len(), i.M(3)"
			case "error":
				call = "i.Error()"
			}
			site(nv+"var i "+in+" = v\nrec(TAG, "+call+")", "iface-assign-value")
			site(nv+"var i "+in+" = &v\nrec(TAG, "+call+")\nrec(TAG, v)", "iface-assign-pointer")
			site(nv+"f := func(i "+in+") { rec(TAG, "+call+") }\nf(&v)\nf(v)", "iface-param")
		}
		// assertions and type switch to concrete types
		for j, u := range types {
			site(nv+"var e interface{} = v\nx, ok := e.("+u.name+")\nrec(TAG, ok, x)", "assert-commaok")
			site(nv+"var e interface{} = &v\nx, ok := e.(*"+u.name+")\nrec(TAG, ok, x == nil)", "assert-commaok-ptr")
			if j == (i+1)%len(types) || j == i {
				site(nv+"var e interface{} = v\nx := e.("+u.name+")\nrec(TAG, x)", "assert-panicking")
			}
		}
	}
	// type switch over values of all types
	var vals, cases []string
	for i, t := range types {
		vals = append(vals, fmt.Sprintf("§new%d(%d)", i, i), fmt.Sprintf("func() *%s { x := §new%d(%d); return &x }()", t.name, i, i+5))
		if i%2 == 0 {
			cases = append(cases, fmt.Sprintf("case %s:\nrec(TAG, %d, x)", t.name, i))
		} else if i+1 < len(types) {
			cases = append(cases, fmt.Sprintf("case *%s, %s:\nrec(TAG, %d, x != nil)", t.name, types[i+1].name, 50+i))
		} else {
			cases = append(cases, fmt.Sprintf("case *%s:\nrec(TAG, %d, x != nil, *x)", t.name, 70+i))
		}
	}
	site("for _, e := range []interface{}{"+strings.Join(vals, ", ")+", nil, 1, \"s\", []int{1}} {\nswitch x := e.(type) {\n"+strings.Join(cases, "\n")+"\ncase nil:\nrec(TAG, 90)\ncase int, string:\nrec(TAG, 91, x)\ndefault:\nrec(TAG, 92)\n}\n}", "type-switch")
	var progs []*Prog
	for _, kind := range kinds {
		src := typeDecls + strings.Join(fnsOf[kind], "") + "func §P() {\n" + strings.Join(callsOf[kind], "\n") + "\n}\n"
		progs = append(progs, &Prog{ID: fmt.Sprintf("c09-%d-%s", id, kind), Imports: []string{"fmt"}, Src: src, Chunks: strings.Split(src, "\n//--\n"), Cell: kind})
	}
	return progs
}

func c09Valid(frag string) bool {
	return fragValidImports(frag, []string{"fmt"})
}

func checkC09(r *fw.Run) {
	r.SetRule("seeded random hierarchies of 3-6 named struct types (embedding by value and by pointer up to depth 3, fields and methods with names shadowed at different depths, value and pointer receivers, some embedded pointers left nil); for every type every candidate site is generated and kept only if go/types accepts it: field selectors through values and pointers, method calls, method values bound before the receiver changes, method expressions T.m and (*T).m, methods on non-addressable values, assignment of values and pointers to four interpreted interfaces and to error, interfaces as parameters, comma-ok and panicking assertions from interface{} to every concrete type and pointer type, one type switch over values of all types with multi-type cases and nil; type switches over values of compiled types whose cases mix compiled interfaces (fmt.Stringer, error, io.Reader/Writer, io.ByteReader) and concrete types in seeded order, first match wins; each site runs under its own recover; declarations are fed to the interpreter one at a time in source order (REPL style: order independence within one evaluation is property C16, not C09); oracle = trace equality with compiled Go; distinct = distinct program texts")
	r.Assume("go/types + cmd/compile 1.23.5 (language go1.18) decide which sites are valid and what they compute; interface-to-interface assertions on interpreted types are not generated (documented limitation); no recursive types")
	o := e1Opts{}
	// regression cells for the repaired receiver-kind defect (C09-method-expr-receiver-kind)
	regress := []string{
		"type §T struct{ A int }\nfunc (t §T) M() int { return t.A }\nfunc §P() { v := §T{3}; rec(1, (*§T).M(&v)) }\n",
		"type §U struct{ B int }\nfunc (u *§U) L() int { return u.B }\ntype §T struct{ *§U }\nfunc §P() { v := §T{&§U{4}}; rec(1, §T.L(v)) }\n",
		"type §T struct{ A int }\nfunc (t §T) Error() string { return \"e\" }\nfunc §P() { v := §T{3}; var e error = &v; rec(1, e.Error()) }\n",
	}
	if p := fw.ReplayArg(); p != "" {
		e1ReplayFile(r, p, o)
		return
	}
	rng := r.Rng("progs")
	n := r.Pick(40, 350)
	feat := map[string]int{}
	var progs []*Prog
	for i := 0; i < n; i++ {
		progs = append(progs, c09Progs(i, rng, feat)...)
	}
	// methods on named non-struct types (slice, integer, func, map, string)
	for i, e := range [][2]string{{"int", "3"}, {"string", "\"q\""}, {"float64", "1.5"}} {
		src := strings.NewReplacer("E", e[0], "X", e[1]).Replace(c09NonStruct)
		progs = append(progs, &Prog{ID: fmt.Sprintf("c09-nonstruct-%d", i), Src: src, Chunks: strings.Split(src, "\n//--\n"), Cell: "named-nonstruct"})
	}
	// type switches whose cases mix compiled interfaces and concrete types in random order: the first matching case wins
	for i := 0; i < r.Pick(40, 1500); i++ {
		progs = append(progs, c09TypeSwitchCompiled(i, rng))
	}
	for i, src := range regress {
		progs = append(progs, &Prog{ID: fmt.Sprintf("c09-regress-%d", i), Src: src, Cell: "receiver-kind-regression"})
	}
	r.Extra("features_generated", feat)
	e1Run(r, progs, o)
}

const c09NonStruct = `type §V []E
//--
func (v §V) Count() int { return len(v) }
//--
func (v *§V) Push(x E) { *v = append(*v, x) }
//--
type §N int
//--
func (n §N) Double() §N { return n * 2 }
//--
func (n *§N) Inc() { *n++ }
//--
type §F func(E) E
//--
func (f §F) Twice(x E) E { return f(f(x)) }
//--
type §M map[string]E
//--
func (m §M) Get(k string) E { return m[k] }
//--
type §S string
//--
func (s §S) Len2() int { return len(s) * 2 }
//--
type §I interface { Double() §N }
//--
type §A [2]E
//--
func (a §A) First() E { return a[0] }
//--
func (a *§A) Set(x E) { a[1] = x }
//--
func §P() {
	v := §V{X}
	v.Push(X)
	rec(1, v.Count(), v)
	n := §N(4)
	n.Inc()
	rec(2, n.Double(), n)
	f := §F(func(x E) E { return x + x })
	rec(3, f.Twice(X))
	m := §M{"a": X}
	rec(4, m.Get("a"), m.Get("zz"), §S("abc").Len2())
	var i §I = n
	rec(5, i.Double())
	g := v.Count
	v = nil
	rec(6, g(), §N.Double(3))
	var a §A
	a.Set(X)
	pa := &a
	rec(7, a.First(), pa.First(), a)
	var e interface{} = n
	k, ok := e.(§N)
	_, ok2 := e.(§V)
	rec(8, k, ok, ok2)
	switch x := e.(type) {
	case §V:
		rec(9, len(x))
	case §N:
		rec(10, x.Double())
	}
}
`

func c09TypeSwitchCompiled(id int, rng *rand.Rand) *Prog {
	cases := []string{"int", "string", "time.Duration", "fmt.Stringer", "error", "*bytes.Buffer", "io.Writer", "io.Reader", "float64", "[]int", "nil", "bool", "*strings.Reader", "io.ByteReader", "time.Month", "map[string]int", "func()"}
	rng.Shuffle(len(cases), func(a, b int) { cases[a], cases[b] = cases[b], cases[a] })
	n := 3 + rng.Intn(len(cases)-3)
	var b strings.Builder
	b.WriteString("func §sw(v interface{}) string {\nswitch x := v.(type) {\n")
	for i := 0; i < n; i++ {
		c := cases[i]
		if i+1 < n && rng.Intn(5) == 0 {
			// multi-type case: x keeps the static type of v
			fmt.Fprintf(&b, "case %s, %s:\n_ = x\nreturn %q\n", c, cases[i+1], c+"|"+cases[i+1])
			i++
			continue
		}
		fmt.Fprintf(&b, "case %s:\n_ = x\nreturn %q\n", c, c)
	}
	if rng.Intn(3) != 0 {
		b.WriteString("default:\n_ = x\nreturn \"default\"\n")
	}
	b.WriteString("}\nreturn \"none\"\n}\n//--\n")
	b.WriteString("func §P() {\nvals := []interface{}{1, \"s\", time.Second, time.March, errors.New(\"e\"), &bytes.Buffer{}, strings.NewReader(\"r\"), 2.5, []int{1}, nil, true, map[string]int{}, func() {}, io.EOF, int8(3), os.ErrNotExist, fmt.Sprint(7)}\n")
	b.WriteString("for i, v := range vals { rec(i, §sw(v)) }\n}\n")
	src := b.String()
	return &Prog{ID: fmt.Sprintf("c09-tswc-%d", id), Imports: []string{"bytes", "errors", "fmt", "io", "os", "strings", "time"}, Src: src, Chunks: strings.Split(src, "\n//--\n"), Cell: "typeswitch-compiled-interfaces-and-concrete-types"}
}
