package main

// C23 — the forked scanner (/repo/go/scanner) tokenizes extension-free input exactly like go/scanner.
//
// Files: c23.go (oracle, comparator, driver), c23_gen.go (corpus, mutators, token soups).
// The corpus / mutation helpers (prefix c23) are shared with C24 (c24.go).

import (
	"bytes"
	"encoding/base64"
	"fmt"
	goscanner "go/scanner"
	"go/token"
	"os"
	"runtime"
	"sort"
	"strconv"
	"strings"
	"sync"
	"sync/atomic"
	"time"

	"github.com/cosmos72/gomacro/go/etoken"
	mscanner "github.com/cosmos72/gomacro/go/scanner"

	"gmverif/internal/fw"
)

func init() { register("C23", "exploration", checkC23) }

const (
	c23FindingAutosemi = "C23-autosemi-before-comment-position"
	c23FindingLineCap  = "C23-line-directive-number-cap"
	c23MacroChar       = '~' // base.Globals default
)

type c23Tok struct {
	Pos int
	Tok token.Token
	Lit string
}

func (t c23Tok) String() string {
	return fmt.Sprintf("{%d %s %q}", t.Pos, etoken.String(t.Tok), t.Lit)
}

type c23Err struct {
	Offset int
	Msg    string
}

type c23Scan struct {
	toks  []c23Tok
	errs  []c23Err
	panic string
	stuck bool
	file  *token.File  // standard side
	efile *etoken.File // fork side
}

// c23StdScan runs the standard scanner over src.
func c23StdScan(src []byte, comments bool, base int) (res c23Scan) {
	fset := token.NewFileSet()
	file := fset.AddFile("c23.go", base, len(src))
	res.file = file
	var mode goscanner.Mode
	if comments {
		mode = goscanner.ScanComments
	}
	var s goscanner.Scanner
	s.Init(file, src, func(pos token.Position, msg string) {
		res.errs = append(res.errs, c23Err{pos.Offset, msg})
	}, mode)
	limit := 2*len(src) + 16
	for n := 0; ; n++ {
		pos, tok, lit := s.Scan()
		res.toks = append(res.toks, c23Tok{int(pos), tok, lit})
		if tok == token.EOF {
			break
		}
		if n > limit {
			res.stuck = true
			break
		}
	}
	return res
}

// c23ForkScan runs the forked scanner over src, the way the forked parser initialises it
// (etoken.FileSet.AddFile, Scanner.Init with the default macro character).
func c23ForkScan(src []byte, comments bool, base int) (res c23Scan) {
	defer func() {
		if e := recover(); e != nil {
			res.panic = fmt.Sprint(e)
		}
	}()
	fset := etoken.NewFileSet()
	file := fset.AddFile("c23.go", base, len(src), 0)
	res.efile = file
	var mode mscanner.Mode
	if comments {
		mode = mscanner.ScanComments
	}
	var s mscanner.Scanner
	s.Init(file, src, func(pos token.Position, msg string) {
		res.errs = append(res.errs, c23Err{pos.Offset, msg})
	}, mode, c23MacroChar)
	limit := 2*len(src) + 16
	for n := 0; ; n++ {
		pos, tok, lit := s.Scan()
		res.toks = append(res.toks, c23Tok{int(pos), tok, lit})
		if tok == token.EOF {
			break
		}
		if n > limit {
			res.stuck = true
			break
		}
	}
	return res
}

// c23OutOfScope decides on the STANDARD scanner's token stream (with comments) whether the
// input uses one of the interpreter's lexical extensions outside string literals and comments.
func c23OutOfScope(std []c23Tok) string {
	for _, t := range std {
		switch t.Tok {
		case token.TILDE:
			return "tilde"
		case token.ILLEGAL:
			if t.Lit == "#" {
				return "hash"
			}
		case token.IDENT:
			if t.Lit == "macro" {
				return "macro"
			}
		}
	}
	return ""
}

// c23SemiShape reports whether src[from:to] is exactly the region between the place where the fork
// puts an automatically inserted semicolon (the start of a comment that follows the last token of a
// line) and the place where go/scanner puts it (the first newline - possibly inside a /*...*/
// comment - or the end of input): only blanks and comments, no newline before 'to'.
func c23SemiShape(src []byte, from, to int) bool {
	n := len(src)
	if from < 0 || to > n || from >= to || from+1 >= n || src[from] != '/' || (src[from+1] != '/' && src[from+1] != '*') {
		return false
	}
	p := from
	for {
		for p < to && (src[p] == ' ' || src[p] == '\t' || src[p] == '\r') {
			p++
		}
		if p == to {
			return to == n || src[to] == '\n'
		}
		if p > to || p+1 >= n || src[p] != '/' {
			return false
		}
		switch src[p+1] {
		case '/':
			e := bytes.IndexByte(src[p:], '\n')
			if e < 0 {
				return to == n
			}
			return p+e == to
		case '*':
			end := bytes.Index(src[p+2:], []byte("*/"))
			if end < 0 {
				return false
			}
			endAbs := p + 2 + end + 2
			if nl := bytes.IndexByte(src[p:endAbs], '\n'); nl >= 0 {
				return p+nl == to
			}
			p = endAbs
		default:
			return false
		}
	}
}

type c23Diff struct {
	what     string
	semiEOF  int // tolerated: auto-semicolon position differs, standard one is at end of input
	semiLine int // known finding: same shape, standard one is at a newline
}

// c23CompareStreams compares the two token streams; the only tolerated difference is the
// position (and, with comments, the order relative to the same-line comments) of an automatically
// inserted semicolon in front of a comment.
func c23CompareStreams(src []byte, base int, std, fork []c23Tok) (d c23Diff) {
	i, j := 0, 0
	for i < len(std) && j < len(fork) {
		s, f := std[i], fork[j]
		if s == f {
			i++
			j++
			continue
		}
		if f.Tok == token.SEMICOLON && f.Lit == "\n" {
			k := i
			for k < len(std) && std[k].Tok == token.COMMENT {
				k++
			}
			n := k - i
			if k < len(std) && std[k].Tok == token.SEMICOLON && std[k].Lit == "\n" &&
				c23SemiShape(src, f.Pos-base, std[k].Pos-base) && j+1+n <= len(fork) {
				same := true
				for m := 0; m < n; m++ {
					if std[i+m] != fork[j+1+m] {
						same = false
						break
					}
				}
				if same && (n == 0 || std[i].Pos == f.Pos) {
					if std[k].Pos-base == len(src) {
						d.semiEOF++
					} else {
						d.semiLine++
					}
					i = k + 1
					j = j + 1 + n
					continue
				}
			}
		}
		d.what = fmt.Sprintf("token #%d differs: standard %v, fork %v (fork token #%d)", i, s, f, j)
		return d
	}
	if i != len(std) || j != len(fork) {
		d.what = fmt.Sprintf("token count differs: standard %d tokens, fork %d tokens (matched %d)", len(std), len(fork), i)
	}
	return d
}

// ---------------------------------------------------------------------------------------------

type c23Replay struct {
	Kind   string `json:"kind"`
	Origin string `json:"origin,omitempty"` // file path / generator description
	SrcB64 string `json:"src_b64"`
	Src    string `json:"src_preview,omitempty"`
}

func c23MkReplay(kind, origin string, src []byte) c23Replay {
	prev := string(src)
	if len(prev) > 300 {
		prev = prev[:300] + "..."
	}
	return c23Replay{Kind: kind, Origin: origin, SrcB64: base64.StdEncoding.EncodeToString(src), Src: fmt.Sprintf("%q", prev)}
}

// c23Acc holds per-worker counters, merged at the end (keeps lock traffic low).
type c23Acc struct {
	evals    int
	cover    map[string]map[string]int64
	counts   map[string]int64
	distinct []string
}

func newC23Acc() *c23Acc {
	return &c23Acc{cover: map[string]map[string]int64{}, counts: map[string]int64{}}
}

func (a *c23Acc) cov(table, cell string) {
	m := a.cover[table]
	if m == nil {
		m = map[string]int64{}
		a.cover[table] = m
	}
	m[cell]++
}

type c23Ctx struct {
	r       *fw.Run
	mu      sync.Mutex
	merged  *c23Acc
	verbose bool
	samples map[string]int
	busy    []atomic.Int64 // per worker: unix nanos when the current case started (0 = idle)
}

func (cx *c23Ctx) flush(a *c23Acc) {
	cx.r.Eval(a.evals)
	a.evals = 0
	for _, k := range a.distinct {
		cx.r.Distinct(k)
	}
	a.distinct = a.distinct[:0]
	cx.mu.Lock()
	for t, m := range a.cover {
		d := cx.merged.cover[t]
		if d == nil {
			d = map[string]int64{}
			cx.merged.cover[t] = d
		}
		for c, n := range m {
			d[c] += n
		}
	}
	for c, n := range a.counts {
		cx.merged.counts[c] += n
	}
	cx.mu.Unlock()
	a.cover = map[string]map[string]int64{}
	a.counts = map[string]int64{}
}

func (cx *c23Ctx) sample(class string, v interface{}) {
	cx.mu.Lock()
	n := cx.samples[class]
	cx.samples[class] = n + 1
	cx.mu.Unlock()
	if n < 1 {
		cx.r.Sample(v)
	}
}

func c23ErrClass(msg string) string {
	// strip the variable part of scanner messages
	for _, cut := range []string{" U+", " '", " \"", ": "} {
		if i := strings.Index(msg, cut); i > 0 {
			msg = msg[:i]
		}
	}
	return msg
}

func c23NumberShape(lit string) string {
	l := strings.ToLower(lit)
	sh := "dec"
	switch {
	case strings.HasPrefix(l, "0x"):
		sh = "0x"
	case strings.HasPrefix(l, "0b"):
		sh = "0b"
	case strings.HasPrefix(l, "0o"):
		sh = "0o"
	case len(l) > 1 && l[0] == '0' && l[1] >= '0' && l[1] <= '9' || strings.HasPrefix(l, "0_"):
		sh = "0oct"
	case strings.HasPrefix(l, "."):
		sh = ".frac"
	}
	if strings.Contains(l, "_") {
		sh += "+_"
	}
	if strings.Contains(l, ".") && sh != ".frac" {
		sh += "+."
	}
	if strings.Contains(l, "p") {
		sh += "+p"
	} else if !strings.HasPrefix(l, "0x") && strings.Contains(l, "e") {
		sh += "+e"
	}
	if strings.HasSuffix(l, "i") {
		sh += "+i"
	}
	return sh
}

func c23InputFeatures(src []byte, a *c23Acc) {
	if bytes.HasPrefix(src, []byte("\xef\xbb\xbf")) {
		a.cov("input_feature", "BOM at start")
	}
	if len(src) > 3 && bytes.Contains(src[3:], []byte("\xef\xbb\xbf")) {
		a.cov("input_feature", "BOM inside")
	}
	if bytes.IndexByte(src, '\r') >= 0 {
		a.cov("input_feature", "CR")
	}
	if bytes.IndexByte(src, 0) >= 0 {
		a.cov("input_feature", "NUL")
	}
	if n := len(src); n > 0 && src[n-1] != '\n' {
		a.cov("input_feature", "no final newline")
	}
}

// c23LineCapShape: the standard scanner rejects a line directive whose line or column exceeds
// 1<<30 (added to go/scanner after the fork was taken); the fork accepts it.
func c23LineCapShape(stdErrs []c23Err) bool {
	if len(stdErrs) == 0 {
		return false
	}
	for _, e := range stdErrs {
		if !(strings.HasPrefix(e.Msg, "invalid line number: ") || strings.HasPrefix(e.Msg, "invalid column number: ")) {
			return false
		}
		num := e.Msg[strings.Index(e.Msg, ": ")+2:]
		if i := strings.IndexByte(num, ':'); i >= 0 { // "invalid line number: 1073741825:7" (the text up to the end of the directive)
			num = num[:i]
		}
		v, err := strconv.ParseUint(num, 10, 64)
		if err != nil || v <= 1<<30 {
			return false
		}
	}
	return true
}

// c23Check is the oracle for one input. Returns false when the input is out of scope.
func (cx *c23Ctx) c23Check(kind, origin string, src []byte, a *c23Acc, show bool) bool {
	const base = 1
	stdC := c23StdScan(src, true, base)
	if why := c23OutOfScope(stdC.toks); why != "" {
		a.counts["out_of_scope_"+why]++
		a.counts[kind+"_out_of_scope"]++
		if show {
			fmt.Printf("input is out of scope: %s\n", why)
		}
		return false
	}
	a.counts[kind+"_in_scope"]++
	c23InputFeatures(src, a)
	var semiEOF, semiLine int
	trivial := len(stdC.toks) < 3
	for _, comments := range []bool{false, true} {
		mode := "skip-comments"
		std := stdC
		if comments {
			mode = "ScanComments"
		} else {
			std = c23StdScan(src, false, base)
		}
		fork := c23ForkScan(src, comments, base)
		a.evals++
		if show {
			fmt.Printf("---- mode %s: standard %d tokens %d errors; fork %d tokens %d errors panic=%q\n", mode, len(std.toks), len(std.errs), len(fork.toks), len(fork.errs), fork.panic)
			c23ShowStreams(std, fork)
		}
		rep := func() c23Replay { return c23MkReplay(kind, origin, src) }
		if fork.panic != "" {
			cx.r.Violation("panic", rep(), fmt.Sprintf("[%s %s %s] forked scanner panics: %s", kind, origin, mode, fork.panic))
			continue
		}
		if fork.stuck {
			cx.r.Violation("no-progress", rep(), fmt.Sprintf("[%s %s %s] forked scanner returned more than 2*len(src) tokens without reaching EOF", kind, origin, mode))
			continue
		}
		if std.stuck {
			a.counts["std_scanner_stuck"]++
			continue
		}
		for _, e := range std.errs {
			a.cov("std_error", c23ErrClass(e.Msg))
		}
		// (1) an error is reported exactly when the standard scanner reports one
		if (len(std.errs) > 0) != (len(fork.errs) > 0) {
			what := fmt.Sprintf("[%s %s %s] error reported by standard scanner: %v; by fork: %v", kind, origin, mode, std.errs, fork.errs)
			if len(fork.errs) == 0 && c23LineCapShape(std.errs) {
				cx.r.Known(c23FindingLineCap, rep(), what)
				a.counts["known_line_cap"]++
			} else {
				cx.r.Violation("error-iff", rep(), what)
			}
			continue
		}
		if len(std.errs) > 0 {
			a.counts["inputs_with_errors_"+mode]++
			same := len(std.errs) == len(fork.errs)
			for i := 0; same && i < len(std.errs); i++ {
				same = std.errs[i] == fork.errs[i]
			}
			if same {
				a.counts["error_lists_identical"]++
			} else {
				a.counts["error_lists_differ_(not_asserted)"]++
			}
			continue // tokens are compared only when the standard scanner reports no error
		}
		// (2) same tokens, literals, positions
		d := c23CompareStreams(src, base, std.toks, fork.toks)
		if d.what != "" {
			cx.r.Violation("tokens", rep(), fmt.Sprintf("[%s %s %s] %s", kind, origin, mode, d.what))
			continue
		}
		semiEOF += d.semiEOF
		semiLine += d.semiLine
		if d.semiLine > 0 {
			cx.r.Known(c23FindingAutosemi, rep(), fmt.Sprintf("[%s %s %s] %d automatically inserted semicolon(s) positioned at the following same-line comment instead of the newline", kind, origin, mode, d.semiLine))
		}
		// (3) line table and Position() of every token that matched exactly (covers //line directives)
		if d.semiLine == 0 && d.semiEOF == 0 {
			if what := c23ComparePositions(std, fork); what != "" {
				cx.r.Violation("position", rep(), fmt.Sprintf("[%s %s %s] %s", kind, origin, mode, what))
				continue
			}
		}
		if comments {
			for _, t := range std.toks {
				a.cov("token", t.Tok.String())
				switch t.Tok {
				case token.INT, token.FLOAT, token.IMAG:
					a.cov("number_shape", t.Tok.String()+" "+c23NumberShape(t.Lit))
				case token.SEMICOLON:
					if t.Lit == "\n" {
						a.cov("token", "; (automatic)")
					}
				}
			}
		}
	}
	if semiEOF > 0 {
		a.counts["autosemi_before_comment_ending_input_(allowed)"] += int64(semiEOF)
		a.cov("input_feature", "comment ends input after a token")
	}
	if semiLine > 0 {
		a.counts["autosemi_before_same_line_comment_(known)"] += int64(semiLine)
		a.counts[kind+"_with_known_autosemi"]++
	}
	if !trivial {
		a.distinct = append(a.distinct, string(src))
		if len(src) < 200 {
			cx.sample(kind, map[string]interface{}{"kind": kind, "origin": origin, "src": fmt.Sprintf("%q", src), "tokens": len(stdC.toks), "std_errors": len(stdC.errs)})
		} else {
			cx.sample(kind, map[string]interface{}{"kind": kind, "origin": origin, "bytes": len(src), "tokens": len(stdC.toks), "std_errors": len(stdC.errs)})
		}
	}
	return true
}

// c23ComparePositions: both files saw the same newlines and line directives.
func c23ComparePositions(std, fork c23Scan) string {
	sl, fl := std.file.Lines(), fork.efile.File.Lines()
	if len(sl) != len(fl) {
		return fmt.Sprintf("line table differs: standard %d lines, fork %d lines", len(sl), len(fl))
	}
	for i := range sl {
		if sl[i] != fl[i] {
			return fmt.Sprintf("line table differs at line %d: standard offset %d, fork offset %d", i+1, sl[i], fl[i])
		}
	}
	for _, t := range std.toks {
		p := token.Pos(t.Pos)
		a, b := std.file.Position(p), fork.efile.Position(p)
		if a != b {
			return fmt.Sprintf("Position(%d) differs: standard %v, fork %v", t.Pos, a, b)
		}
	}
	return ""
}

func c23ShowStreams(std, fork c23Scan) {
	n := len(std.toks)
	if len(fork.toks) > n {
		n = len(fork.toks)
	}
	first := -1
	for i := 0; i < n; i++ {
		if i >= len(std.toks) || i >= len(fork.toks) || std.toks[i] != fork.toks[i] {
			first = i
			break
		}
	}
	if first < 0 {
		fmt.Printf("token streams identical\n")
	} else {
		lo := first - 3
		if lo < 0 {
			lo = 0
		}
		for i := lo; i < first+8 && i < n; i++ {
			var s, f string
			if i < len(std.toks) {
				s = std.toks[i].String()
			}
			if i < len(fork.toks) {
				f = fork.toks[i].String()
			}
			mark := " "
			if s != f {
				mark = "!"
			}
			fmt.Printf(" %s #%-5d standard %-40s fork %s\n", mark, i, s, f)
		}
	}
	fmt.Printf(" standard errors: %v\n fork errors:     %v\n", std.errs, fork.errs)
}

// ---------------------------------------------------------------------------------------------

type c23Case struct {
	kind   string // file | bytemut | tokmut | soup | pair
	origin string
	seed   uint64
	file   int // index into files (file, bytemut, tokmut)
	a, b   int // pair indexes
	sep    int
}

// c23RunCases distributes cases over workers; each case is derived from its own seed only.
func (cx *c23Ctx) c23RunCases(n int, fn func(worker, i int, a *c23Acc)) {
	nw := runtime.NumCPU()
	if nw > n {
		nw = n
	}
	if nw < 1 {
		nw = 1
	}
	cx.busy = make([]atomic.Int64, nw)
	var next atomic.Int64
	var wg sync.WaitGroup
	done := make(chan struct{})
	go cx.watchdog(done, cx.busy)
	for w := 0; w < nw; w++ {
		wg.Add(1)
		go func(w int) {
			defer wg.Done()
			a := newC23Acc()
			for {
				lo := int(next.Add(64)) - 64
				if lo >= n {
					break
				}
				hi := lo + 64
				if hi > n {
					hi = n
				}
				for i := lo; i < hi; i++ {
					cx.busy[w].Store(time.Now().UnixNano())
					fn(w, i, a)
				}
				cx.busy[w].Store(0)
				cx.flush(a)
			}
		}(w)
	}
	wg.Wait()
	close(done)
}

// watchdog: a case that does not return is a harness/termination problem, never a verdict.
func (cx *c23Ctx) watchdog(done chan struct{}, busy []atomic.Int64) {
	t := time.NewTicker(5 * time.Second)
	defer t.Stop()
	for {
		select {
		case <-done:
			return
		case <-t.C:
			now := time.Now().UnixNano()
			for w := range busy {
				if s := busy[w].Load(); s != 0 && now-s > int64(300*time.Second) {
					cx.r.Inconclusive(fmt.Sprintf("worker %d has been inside one case for more than 300 s (possible non-termination of the code under test or the harness)", w))
					cx.r.Finish()
				}
			}
		}
	}
}

func checkC23(r *fw.Run) {
	r.SetRule("inputs = (a) every .go file under GOROOT/src and /repo (quick: fixed core + seeded sample of ~1000), (b) seeded byte-level and token-level mutations (1..3 edits; quick 100000, thorough 1000000) of 200..3000-byte line-aligned windows of those files, (c) every ordered pair of a 392-piece literal-heavy alphabet (number literal edge cases 0b/0o/0x/_ separators/hex floats/imaginary, strings, runes, escapes, comments incl. line directives, BOM, CR, NUL, invalid UTF-8, unterminated literals, keywords, operators) joined by '', ' ' or newline, (d) seeded token soups of 1..14 such pieces (quick 100000, thorough 1000000), (e) the files of (a) and the pairs of (c) once more with etoken.GENERICS = GENERICS_V2_CTI, the mode the gomacro command runs in (no additional keyword is allowed in that mode); inputs that use ~, # or the word macro outside strings/comments (standard scanner's judgement) are dropped. A distinct non-trivial case = distinct in-scope input bytes with >= 2 tokens before EOF. Oracle per input and per mode (comments skipped / ScanComments): fork reports >=1 error iff go/scanner does; if go/scanner reports none: identical (position, token, literal) sequences, identical line tables and Position() of every token; only an automatically inserted semicolon in front of a same-line comment may sit at the comment instead of the newline/EOF (allowed silently when the comment ends the input, known finding otherwise)")
	r.Assume("go/scanner of the toolchain that builds the harness (Go 1.23) is the reference; token kinds are compared by value (etoken.Token is an alias of token.Token)")
	r.Assume("when the standard scanner reports an error only the existence of an error on the fork side is demanded (tokens, messages and error counts are recorded, not asserted)")
	r.Assume("the fork scanner is initialised as the fork parser does: etoken.FileSet.AddFile + Scanner.Init with macro character '~'")

	cx := &c23Ctx{r: r, merged: newC23Acc(), samples: map[string]int{}, verbose: os.Getenv("C23_VERBOSE") != ""}

	if p := fw.ReplayArg(); p != "" {
		var rep c23Replay
		if err := fw.LoadReplay(p, &rep); err != nil {
			panic(err)
		}
		src, err := base64.StdEncoding.DecodeString(rep.SrcB64)
		if err != nil {
			panic(err)
		}
		fmt.Printf("replay %s %s: %d bytes: %q\n", rep.Kind, rep.Origin, len(src), fw.Clip(string(src), 400))
		a := newC23Acc()
		if strings.HasSuffix(rep.Kind, "-cti") {
			etoken.GENERICS = etoken.GENERICS_V2_CTI
		}
		cx.c23Check(rep.Kind, rep.Origin, src, a, true)
		cx.flush(a)
		r.SetMinDistinct(0)
		return
	}

	files := c23CorpusFiles(r)
	if len(files.all) < 1000 {
		r.Inconclusive(fmt.Sprintf("only %d corpus files found", len(files.all)))
		return
	}
	use := files.pick(r, "files", r.Pick(1000, 1<<30))
	r.Extra("corpus_files_total", len(files.all))
	r.Extra("corpus_files_used", len(use))

	// ---- (a) files ----------------------------------------------------------------------------
	cx.c23RunCases(len(use), func(w, i int, a *c23Acc) {
		src, err := os.ReadFile(use[i])
		if err != nil {
			a.counts["file_unreadable"]++
			return
		}
		cx.c23Check("file", use[i], src, a, false)
	})

	// ---- (b) mutants --------------------------------------------------------------------------
	alpha := c23Alphabet()
	nmut := r.Pick(100000, 1000000)
	mseed := uint64(r.Rng("mutants").Int63())
	cache := newC23FileCache(use)
	cx.c23RunCases(nmut, func(w, i int, a *c23Acc) {
		rnd := &c23Rand{s: c23Mix(mseed ^ c23Mix(uint64(i)))}
		fi := rnd.intn(len(use))
		data := cache.get(fi)
		if len(data) == 0 {
			return
		}
		win := c23Window(data, rnd)
		var kind string
		var out []byte
		var ops []string
		if i%2 == 0 {
			kind = "bytemut"
			out, ops = c23ByteMutate(win, rnd, 1+rnd.intn(3))
		} else {
			kind = "tokmut"
			out, ops = c23TokenMutate(win, rnd, alpha, 1+rnd.intn(3), false)
		}
		for _, op := range ops {
			a.cov("mutation_op", op)
		}
		cx.c23Check(kind, fmt.Sprintf("%s #%d %v", use[fi], i, ops), out, a, false)
	})

	// ---- (c) all ordered pairs of alphabet pieces -------------------------------------------
	seps := []string{"", " ", "\n"}
	np := len(alpha) * len(alpha) * len(seps)
	cx.c23RunCases(np, func(w, i int, a *c23Acc) {
		s := i % len(seps)
		y := (i / len(seps)) % len(alpha)
		x := i / len(seps) / len(alpha)
		src := []byte(alpha[x] + seps[s] + alpha[y])
		cx.c23Check("pair", fmt.Sprintf("%q %q %q", alpha[x], seps[s], alpha[y]), src, a, false)
	})
	r.Extra("alphabet_pieces", len(alpha))

	// ---- (d) token soups ---------------------------------------------------------------------
	nsoup := r.Pick(100000, 1000000)
	sseed := uint64(r.Rng("soups").Int63())
	cx.c23RunCases(nsoup, func(w, i int, a *c23Acc) {
		rnd := &c23Rand{s: c23Mix(sseed ^ c23Mix(uint64(i)))}
		src := c23Soup(rnd, alpha)
		cx.c23Check("soup", fmt.Sprintf("#%d", i), src, a, false)
	})

	// ---- (e) the command's generics mode: files and alphabet pairs again with etoken.GENERICS = V2_CTI ---
	// (GENERICS is process-global: switched here, between the parallel phases only)
	savedGenerics := etoken.GENERICS
	etoken.GENERICS = etoken.GENERICS_V2_CTI
	cx.c23RunCases(len(use), func(w, i int, a *c23Acc) {
		src, err := os.ReadFile(use[i])
		if err != nil {
			return
		}
		a.counts["cti_mode_inputs"]++
		cx.c23Check("file-cti", use[i], src, a, false)
	})
	cx.c23RunCases(np, func(w, i int, a *c23Acc) {
		s := i % len(seps)
		y := (i / len(seps)) % len(alpha)
		x := i / len(seps) / len(alpha)
		src := []byte(alpha[x] + seps[s] + alpha[y])
		a.counts["cti_mode_inputs"]++
		cx.c23Check("pair-cti", fmt.Sprintf("%q %q %q", alpha[x], seps[s], alpha[y]), src, a, false)
	})
	etoken.GENERICS = savedGenerics

	r.Extra("tables", cx.merged.cover)
	keys := make([]string, 0, len(cx.merged.counts))
	for c := range cx.merged.counts {
		keys = append(keys, c)
	}
	sort.Strings(keys)
	for _, c := range keys {
		r.Count(c, cx.merged.counts[c])
	}
	if cx.verbose {
		for _, c := range keys {
			fmt.Fprintf(os.Stderr, "COUNT %-60s %d\n", c, cx.merged.counts[c])
		}
	}
	for _, k := range []string{"file", "bytemut", "tokmut", "pair", "soup"} {
		if cx.merged.counts[k+"_in_scope"] == 0 {
			r.Inconclusive("no in-scope input of class " + k)
		}
	}
}
