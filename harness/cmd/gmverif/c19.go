package main

// C19 - debugger transparency and step/next/finish/continue stop rules.
//
// For every generated program the worker
//   1. runs it without the debugger (OptDebugger clear) and with OptDebugger set but not single-stepping,
//   2. runs it under the real fast/debug.Debugger answering "step" forever: the full single-step trace T,
//   3. runs it under seeded scripts of step/next/finish/continue (abbreviations and "enter repeats" included)
//      and compares the recorded stops with the stops computed from T by the documented rule, and the
//      rec() events and the result with run 1.

import (
	"bufio"
	"encoding/json"
	"fmt"
	"os"
	"strings"

	"gmverif/internal/fw"
)

func init() {
	register("C19", "exploration", checkC19)
	auxCmds["c19worker"] = c19Worker
}

const (
	c19FindStale  = "C19-stale-callers-after-continue"
	c19FindSpin   = "C19-fall-off-end-spins"
	c19FindDepth  = "C19-calldepth-after-panic"
	c19MaxT       = 4000
	c19MaxInt     = int(^uint(0) >> 1)
	c19ScriptsKey = "scripts"
)

// ---------------------------------------------------------------- model

type c19Verdict struct {
	OK         bool     `json:"ok"`
	What       string   `json:"what,omitempty"`
	Want       []string `json:"want,omitempty"` // expected stops (model) up to the divergence
	Got        []string `json:"got,omitempty"`  // recorded stops
	Expected   []int    `json:"-"`              // T indexes of the stops
	Stale      int      `json:"stale_skips"`    // expected stops in stale frames that were skipped (known defect)
	StaleAt    string   `json:"stale_at,omitempty"`
	DepthSkips int      `json:"depth_skips"` // stops expected by the depths of T but not taken, inside a panic extent
	DepthShift int      `json:"depth_shift"` // stops whose call depth differs from T's, inside a panic extent
	DepthAt    string   `json:"depth_at,omitempty"`
	Truncated  bool     `json:"truncated,omitempty"`
	Cells      []string `json:"-"`
}

// effective commands of a script: blank lines repeat the previous command
func c19Effective(s c19Script, n int) []string {
	out := make([]string, 0, n)
	last := ""
	for i := 0; len(out) < n; i++ {
		c := c19Canon(s.at(i))
		if c == "" {
			if last == "" {
				continue // ignored by the debugger, which reads another line
			}
			c = last
		}
		last = c
		out = append(out, c)
	}
	return out
}

// c19PanicExtents marks the elements of T executed while a panic unwinds the stack (deferred calls and
// whatever they call): from the element of a panic(...) statement to the first later element of a frame
// that already existed when the panic started (the caller of the recovering function).
// ext[j] = 0 outside, else 1 + call depth of the panicking statement (bound of the depth uncertainty).
func c19PanicExtents(T []c19Stop, rawFrame []int, panicLines map[string]bool) []int {
	ext := make([]int, len(T))
	maxFrame := 0
	raw := 0
	for p := 0; p < len(T); p++ {
		for ; raw <= T[p].Raw && raw < len(rawFrame); raw++ {
			if rawFrame[raw] > maxFrame {
				maxFrame = rawFrame[raw]
			}
		}
		line := T[p].Pos
		if i := strings.IndexByte(line, ':'); i >= 0 {
			line = line[:i]
		}
		if !panicLines[line] {
			continue
		}
		for j := p + 1; j < len(T) && T[j].Frame > maxFrame; j++ {
			if ext[j] < 1+T[p].Depth {
				ext[j] = 1 + T[p].Depth
			}
		}
	}
	return ext
}

func c19PanicLines(src string) map[string]bool {
	m := map[string]bool{}
	for i, l := range strings.Split(src, "\n") {
		if strings.HasPrefix(strings.TrimSpace(l), "panic(") {
			m[fmt.Sprint(i+1)] = true
		}
	}
	return m
}

// c19Model computes the stops of a script from the full trace and compares them with the recorded ones.
// T: stops of the all-step run; rawFrame[i]: frame id of the i-th debugger callback of that run;
// ext: panic extents (see c19PanicExtents).
//
// Two known defects make the expectation non-deterministic in narrowly defined places:
//   - stale frames (c19FindStale): frames that executed statements while single-stepping was off keep running in the
//     fast loop for a while after a breakpoint in a callee re-enables it; a stop in such a frame may be missed;
//   - panic extents (c19FindDepth): Env.CallDepth of deferred calls run during a panic is too large by an amount that
//     depends on how the unwound frames were executed, so it may differ between the all-step run and a scripted run.
func c19Model(T []c19Stop, rawFrame []int, ext []int, script c19Script, R []c19Stop, startD int) c19Verdict {
	v := c19Verdict{OK: true}
	cmds := c19Effective(script, len(R)+1)
	D := startD // DebugExpr starts with DebugOpStep (MaxInt), RunExpr with DebugOpContinue (0)
	idx := -1
	offRaw := -1
	stale := map[int]bool{}
	k := 0
	same := func(r, e c19Stop, j int) bool {
		if r.Pos != e.Pos || r.IP != e.IP || r.Bp != e.Bp || r.Side != e.Side {
			return false
		}
		if ext[j] != 0 {
			return r.Depth >= e.Depth && r.Depth <= e.Depth+ext[j]
		}
		return r.Depth == e.Depth
	}
	fail := func(format string, a ...interface{}) c19Verdict {
		v.OK = false
		v.What = fmt.Sprintf(format, a...)
		for _, j := range v.Expected {
			v.Want = append(v.Want, T[j].String())
		}
		for _, s := range R {
			v.Got = append(v.Got, s.String())
		}
		return v
	}
	for {
		stopAt := -1
		for j := idx + 1; j < len(T); j++ {
			e := T[j]
			// inside a panic extent the real call depth is e.Depth ... e.Depth+ext[j]
			may := e.Bp || e.Depth < D
			must := e.Bp || e.Depth+ext[j] < D
			if !may {
				continue
			}
			if must && (e.Bp || !stale[e.Frame]) {
				stopAt = j
				break
			}
			// may stop, need not
			if k < len(R) && same(R[k], e, j) {
				stopAt = j
				break
			}
			if stale[e.Frame] {
				// the frame of e was running in the fast loop when single-stepping was re-enabled: known defect,
				// it may or may not have noticed yet
				v.Stale++
				if v.StaleAt == "" {
					v.StaleAt = fmt.Sprintf("stop %d: expected %s (command %q at the previous stop) but its frame still runs in the fast loop", k, e, cmds[c19max(k-1, 0)])
				}
			} else {
				v.DepthSkips++
				if v.DepthAt == "" {
					v.DepthAt = fmt.Sprintf("stop %d: by the call depths of the all-step run the debugger should stop at %s (command %q at the previous stop), it did not; the statement runs during a panic", k, e, cmds[c19max(k-1, 0)])
				}
			}
		}
		if k < len(R) && strings.HasPrefix(R[k].Pos, "ip") && len(stale) > 0 && (stopAt < 0 || !same(R[k], T[stopAt], stopAt)) {
			// a stale frame noticed the debug signal only when it executed its return statement: the debugger
			// is called once at the IP past the last statement. Same known defect; the rest of the script is not compared.
			v.Stale++
			v.Truncated = true
			if v.StaleAt == "" {
				v.StaleAt = fmt.Sprintf("stop %d: bogus stop at IP=%d past the last statement of a function (call depth %d) whose frame was still running in the fast loop", k, R[k].IP, R[k].Depth)
			}
			return v
		}
		if stopAt < 0 {
			if k < len(R) {
				return fail("stop %d: the model expects no further stop, the debugger stopped at %s", k, R[k])
			}
			return v
		}
		e := T[stopAt]
		v.Expected = append(v.Expected, stopAt)
		if k >= len(R) {
			return fail("stop %d: expected a stop at %s, the program ran on to its end", k, e)
		}
		if !same(R[k], e, stopAt) {
			prev := "start (step)"
			if k > 0 {
				prev = cmds[k-1] + " at " + R[k-1].String()
			}
			return fail("stop %d after %s: expected %s, got %s", k, prev, e, R[k])
		}
		if R[k].Depth != e.Depth {
			v.DepthShift++
			if v.DepthAt == "" {
				v.DepthAt = fmt.Sprintf("stop %d: %s has call depth %d in the all-step run and %d in this run (deferred call during a panic)", k, e.Pos, e.Depth, R[k].Depth)
			}
		}
		if e.Bp && D == 0 {
			// frames that executed while single-stepping was off are in the fast loops
			for i := offRaw + 1; i < e.Raw; i++ {
				stale[rawFrame[i]] = true
			}
		}
		delete(stale, e.Frame)
		cmd := cmds[k]
		if c19Canon(R[k].Cmd) != "" && c19Canon(R[k].Cmd) != cmd {
			return fail("harness: command mismatch at stop %d: %q vs %q", k, R[k].Cmd, cmd)
		}
		switch cmd {
		case "step":
			D = c19MaxInt
		case "next":
			D = R[k].Depth + 1 // the depth the real debugger saw
		case "finish":
			D = R[k].Depth
		case "continue":
			D = 0
			offRaw = e.Raw
		default:
			return fail("harness: unknown command %q", cmd)
		}
		idx = stopAt
		k++
	}
}

func c19max(a, b int) int {
	if a > b {
		return a
	}
	return b
}

// ---------------------------------------------------------------- worker

type c19Job struct {
	Scripts []c19Script `json:"scripts"`
}

type c19ScriptReport struct {
	Script  c19Script  `json:"script"`
	Verdict c19Verdict `json:"verdict"`
	Transp  string     `json:"transparency,omitempty"` // non-empty: events/result differ from the plain run
	Stops   int        `json:"stops"`
	Key     string     `json:"key"` // hash of the expected stop list + commands
	Trivial bool       `json:"trivial"`
	Cells   []string   `json:"cells"`
	RunErr  string     `json:"run_err,omitempty"`
	GotObs  *c19Obs    `json:"got,omitempty"`
}

type c19Report struct {
	Err       string            `json:"err,omitempty"` // harness-level: program unusable (compile error, oversize, watchdog)
	Spin      string            `json:"spin,omitempty"`
	TLen      int               `json:"tlen"`
	MaxDepth  int               `json:"max_depth"`
	Bps       int               `json:"bps"`
	Synthetic int               `json:"synthetic"`
	DupKeys   int               `json:"dup_keys"`
	InExtent  int               `json:"in_extent"`
	Events    int               `json:"events"`
	Plain     string            `json:"plain_result"`
	Transp    []string          `json:"transparency,omitempty"` // failures of the non-script runs
	DepthBad  string            `json:"depth_bad,omitempty"`    // one activation reporting two call depths
	Scripts   []c19ScriptReport `json:"scripts"`
	T         []string          `json:"t,omitempty"`
}

func c19SameSide(a, b *c19Obs) string {
	n := len(a.Events)
	if len(b.Events) < n {
		n = len(b.Events)
	}
	for i := 0; i < n; i++ {
		if a.Events[i] != b.Events[i] {
			return fmt.Sprintf("event %d: %s without debugger, %s with", i, a.Events[i], b.Events[i])
		}
	}
	if len(a.Events) != len(b.Events) {
		return fmt.Sprintf("%d events without debugger, %d with (results %q / %q)", len(a.Events), len(b.Events), a.Result, b.Result)
	}
	if a.Result != b.Result {
		return fmt.Sprintf("result %q without debugger, %q with", a.Result, b.Result)
	}
	return ""
}

func c19Cells(T []c19Stop, expected []int, cmds []string) []string {
	var cells []string
	for k, j := range expected {
		if k >= len(cmds) {
			break
		}
		from := T[j]
		where := "end"
		if k+1 < len(expected) {
			to := T[expected[k+1]]
			switch {
			case to.Bp:
				where = "breakpoint"
			case to.Depth > from.Depth:
				where = "deeper"
			case to.Depth < from.Depth:
				where = "shallower"
			default:
				where = "same-depth"
			}
			if expected[k+1] != j+1 {
				where += "+skipped"
			}
		}
		k2 := "at"
		if from.Bp {
			k2 = "bp"
		}
		cells = append(cells, cmds[k]+"@"+k2+"->"+where)
	}
	return cells
}

func c19DoProgram(src string, scripts []c19Script, keepObs bool) *c19Report {
	rep := &c19Report{}
	plain := c19Run(src, "plain", c19Script{Tail: "continue"})
	if plain.Err != "" {
		rep.Err = "plain run: " + plain.Err
		return rep
	}
	rep.Plain = plain.Result
	rep.Events = len(plain.Events)
	nodbg := c19Run(src, "nodebug", c19Script{Tail: "continue"})
	if nodbg.Err != "" {
		rep.Err = "nodebug run: " + nodbg.Err
		return rep
	}
	if d := c19SameSide(plain, nodbg); d != "" {
		rep.Transp = append(rep.Transp, "compiled with OptDebugger, run by RunExpr (breakpoints answer continue): "+d)
	}
	full := c19Run(src, "debug", c19Script{Tail: "step"})
	if full.Spin != "" {
		rep.Spin = full.Spin
		return rep
	}
	if full.Err != "" {
		rep.Err = "all-step run: " + full.Err
		return rep
	}
	if full.Proto != "" {
		rep.Transp = append(rep.Transp, "all-step run: "+full.Proto)
	}
	if d := c19SameSide(plain, full); d != "" {
		rep.Transp = append(rep.Transp, "all-step run: "+d)
	}
	T := full.Stops
	rep.TLen = len(T)
	rep.Synthetic = full.Synthetic
	seen := map[string]bool{}
	for _, s := range T {
		if s.Depth > rep.MaxDepth {
			rep.MaxDepth = s.Depth
		}
		if s.Bp {
			rep.Bps++
		}
		key := fmt.Sprint(s.Pos, s.Depth, s.IP, s.Bp, s.Side)
		if seen[key] {
			rep.DupKeys++
		}
		seen[key] = true
	}
	// every statement of one function activation runs at the call depth of that activation, also inside nested
	// blocks that have frames of their own: the stop rules of next/finish compare exactly this number
	frameDepth := map[int]int{}
	for _, s := range T {
		if d, ok := frameDepth[s.Frame]; ok && d != s.Depth && rep.DepthBad == "" {
			rep.DepthBad = fmt.Sprintf("stops of one function activation (frame %d) report call depth %d and %d (second at %s)", s.Frame, d, s.Depth, s.Pos)
		}
		if _, ok := frameDepth[s.Frame]; !ok {
			frameDepth[s.Frame] = s.Depth
		}
	}
	if keepObs {
		for _, s := range T {
			rep.T = append(rep.T, s.String())
		}
	}
	if len(T) > c19MaxT {
		rep.Err = "oversize"
		return rep
	}
	if len(rep.Transp) > 0 {
		return rep // T is not trustworthy
	}
	ext := c19PanicExtents(T, full.RawFrame, c19PanicLines(src))
	for _, x := range ext {
		if x != 0 {
			rep.InExtent++
		}
	}
	// the RunExpr run of the code compiled for the debugger must stop exactly at the breakpoints
	all := append([]c19Script{{Tail: "continue", RunExpr: true}}, scripts...)
	for _, sc := range all {
		sr := c19ScriptReport{Script: sc}
		if sc.RunExpr {
			sr.Stops = len(nodbg.Stops)
			sr.Verdict = c19Model(T, full.RawFrame, ext, sc, nodbg.Stops, 0)
			sr.Key = fw.Hash(src + "|runexpr")
			sr.Trivial = len(nodbg.Stops) == 0
			sr.Cells = c19Cells(T, sr.Verdict.Expected, c19Effective(sc, len(nodbg.Stops)+1))
			for i := range sr.Cells {
				sr.Cells[i] = "RunExpr:" + sr.Cells[i]
			}
			if !sr.Verdict.OK {
				sr.GotObs = nodbg
			}
			rep.Scripts = append(rep.Scripts, sr)
			continue
		}
		got := c19Run(src, "debug", sc)
		sr.Stops = len(got.Stops)
		if got.Err != "" || got.Spin != "" {
			sr.RunErr = got.Err + got.Spin
			rep.Scripts = append(rep.Scripts, sr)
			continue
		}
		sr.Transp = c19SameSide(plain, got)
		if got.Proto != "" && sr.Transp == "" {
			sr.Transp = got.Proto
		}
		sr.Verdict = c19Model(T, full.RawFrame, ext, sc, got.Stops, c19MaxInt)
		cmds := c19Effective(sc, len(got.Stops)+1)
		sr.Cells = c19Cells(T, sr.Verdict.Expected, cmds)
		var kb strings.Builder
		for i, j := range sr.Verdict.Expected {
			fmt.Fprintf(&kb, "%d%c", j, cmds[i][0])
		}
		sr.Key = fw.Hash(src + "|" + kb.String())
		// non-trivial: at least one statement of T skipped before the last stop, or a stop at a breakpoint
		sr.Trivial = true
		for i, j := range sr.Verdict.Expected {
			if j != i {
				sr.Trivial = false
			}
		}
		if len(sr.Verdict.Expected) < len(T) && len(sr.Verdict.Expected) > 0 {
			sr.Trivial = false
		}
		if keepObs || !sr.Verdict.OK || sr.Transp != "" {
			sr.GotObs = got
		}
		rep.Scripts = append(rep.Scripts, sr)
	}
	return rep
}

func c19Worker(args []string) {
	in := bufio.NewReaderSize(os.Stdin, 1<<20)
	out := bufio.NewWriterSize(os.Stdout, 1<<16)
	dec := json.NewDecoder(in)
	for {
		var p Prog
		if err := dec.Decode(&p); err != nil {
			break
		}
		fmt.Fprintf(out, "START %s\n", p.ID)
		out.Flush()
		var job c19Job
		json.Unmarshal([]byte(p.Mode[c19ScriptsKey]), &job)
		rep := c19DoProgram(p.Src, job.Scripts, false)
		data, _ := json.Marshal(rep)
		res := &Result{ID: p.ID, End: "ok", Detail: string(data)}
		data, _ = json.Marshal(res)
		out.Write(data)
		out.WriteByte('\n')
		out.Flush()
	}
}

// ---------------------------------------------------------------- driver

type c19Replay struct {
	Src     string      `json:"src"`
	Scripts []c19Script `json:"scripts"`
	What    string      `json:"what,omitempty"`
	Want    []string    `json:"want,omitempty"`
	Got     []string    `json:"got,omitempty"`
}

func checkC19(r *fw.Run) {
	r.SetRule("programs = seeded random int programs (1-4 functions calling later ones, a bounded recursive function, closures called directly / through a compiled function / deferred, for and range loops with break/continue, switch, defer, panic+recover, \"break\" and _ = \"break\" breakpoints; each statement on its own line, each body starting with rec()); per program one all-step run gives the full trace T, then seeded scripts over step/next/finish/continue (abbreviated spellings, blank line = repeat) with a random tail command; a case = (program, script); distinct non-trivial = distinct (program, expected stop list) where at least one element of T is skipped or the run ends before T does; oracle = stops computed from T by the rule (step: next element; next at depth d: next element with depth<=d; finish: depth<d; continue: none; a breakpoint statement always stops) must equal the recorded stops element by element (position, IP, call depth, kind, number of rec events so far), and rec events + result of every run equal the run without debugger")
	r.Assume("the all-step run visits every executed statement (checked: its rec events and result equal the non-debug run); fast/debug.Debugger.Show decides what is a synthetic statement; the injected rec()/via() are compiled Go")

	if path := fw.ReplayArg(); path != "" {
		var rp c19Replay
		if err := fw.LoadReplay(path, &rp); err != nil {
			r.Inconclusive("cannot load replay: " + err.Error())
			return
		}
		r.SetMinDistinct(0)
		rep := c19DoProgram(rp.Src, rp.Scripts, true)
		fmt.Println(rp.Src)
		fmt.Println("plain result:", rep.Plain, "err:", rep.Err, "spin:", rep.Spin, "transparency:", rep.Transp)
		fmt.Println("full trace T:")
		for i, s := range rep.T {
			fmt.Printf("  %3d %s\n", i, s)
		}
		for _, sr := range rep.Scripts {
			fmt.Println("script:", sr.Script, "ok:", sr.Verdict.OK, sr.Verdict.What, "transparency:", sr.Transp, "stale skips:", sr.Verdict.Stale, sr.Verdict.StaleAt, "depth:", sr.Verdict.DepthShift, sr.Verdict.DepthSkips, sr.Verdict.DepthAt, sr.RunErr)
			fmt.Println(" expected T indexes:", sr.Verdict.Expected)
			if sr.GotObs != nil {
				for i, s := range sr.GotObs.Stops {
					fmt.Printf("  got %3d %s\n", i, s)
				}
				fmt.Println("  result:", sr.GotObs.Result)
			}
			r.Eval(1)
			if !sr.Verdict.OK || sr.Transp != "" {
				r.Violation("replay", rp, sr.Verdict.What+" "+sr.Transp)
			}
			if sr.Verdict.Stale > 0 {
				r.Known(c19FindStale, rp, sr.Verdict.StaleAt)
			}
			if sr.Verdict.DepthSkips+sr.Verdict.DepthShift > 0 {
				r.Known(c19FindDepth, rp, sr.Verdict.DepthAt)
			}
		}
		if rep.Spin != "" {
			r.Eval(1)
			r.Known(c19FindSpin, rp, rep.Spin)
		}
		for _, t := range rep.Transp {
			r.Eval(1)
			r.Violation("replay", rp, t)
		}
		return
	}

	nprog := r.Pick(220, 3000)
	nscript := r.Pick(10, 30)
	grng := r.Rng("programs")
	srng := r.Rng("scripts")
	var progs []*Prog
	srcs := map[string]string{}
	jobs := map[string]c19Job{}
	feats := map[string][]string{}
	for i := 0; i < nprog; i++ {
		src, fs, _ := c19GenProg(grng)
		id := fmt.Sprintf("p%d", i)
		var job c19Job
		guess := 20 + srng.Intn(60)
		for s := 0; s < nscript; s++ {
			job.Scripts = append(job.Scripts, c19GenScript(srng, guess))
		}
		data, _ := json.Marshal(job)
		progs = append(progs, &Prog{ID: id, Src: src, Mode: map[string]string{c19ScriptsKey: string(data)}})
		srcs[id] = src
		jobs[id] = job
		feats[id] = fs
	}
	results := sutRun(selfBin(), "c19worker", progs, nil)

	ids := make([]string, 0, len(progs))
	for _, p := range progs {
		ids = append(ids, p.ID)
	}
	var unusable, spins, staleScripts, depthScripts, usable int
	samples := 0
	for _, id := range ids {
		res := results[id]
		if res == nil || res.End != "ok" {
			d := "no result"
			if res != nil {
				d = res.Detail
			}
			r.Inconclusive("worker failed on " + id + ": " + fw.Clip(d, 500))
			continue
		}
		var rep c19Report
		if err := json.Unmarshal([]byte(res.Detail), &rep); err != nil {
			r.Inconclusive("bad worker report for " + id)
			continue
		}
		src := srcs[id]
		if rep.Spin != "" {
			spins++
			if spins <= 2 {
				r.Known(c19FindSpin, c19Replay{Src: src, Scripts: []c19Script{{Tail: "step"}}, What: rep.Spin}, rep.Spin)
			}
			r.Count("programs_lost_to_"+c19FindSpin, 1)
			continue
		}
		if rep.Err != "" {
			unusable++
			r.Count("programs_unusable:"+strings.SplitN(rep.Err, ":", 2)[0], 1)
			if strings.Contains(rep.Err, "watchdog") {
				r.Inconclusive("watchdog on " + id + ": " + rep.Err)
			}
			continue
		}
		for _, t := range rep.Transp {
			r.Eval(1)
			r.Violation("transparency", c19Replay{Src: src, What: t}, "debugger changes the program's behaviour: "+t+"\n"+src)
		}
		if len(rep.Transp) > 0 {
			continue
		}
		if rep.DepthBad != "" {
			r.Eval(1)
			r.Violation("activation-depth", c19Replay{Src: src, What: rep.DepthBad}, rep.DepthBad+"\n"+src)
		}
		usable++
		r.Eval(2) // nodebug and all-step transparency comparisons
		for _, f := range feats[id] {
			r.Cover("program_features", f)
		}
		r.Cover("max_call_depth", fmt.Sprint(rep.MaxDepth))
		r.Count("trace_elements", int64(rep.TLen))
		r.Count("synthetic_statements_skipped", int64(rep.Synthetic))
		r.Count("breakpoint_hits_in_T", int64(rep.Bps))
		r.Count("ambiguous_trace_keys", int64(rep.DupKeys))
		r.Count("trace_elements_during_panic", int64(rep.InExtent))
		for _, sr := range rep.Scripts {
			one := c19Replay{Src: src, Scripts: []c19Script{sr.Script}}
			if sr.RunErr != "" {
				r.Inconclusive("script run failed on " + id + " " + sr.Script.String() + ": " + sr.RunErr)
				continue
			}
			r.Eval(2) // stop sequence + transparency
			r.Count("stops_compared", int64(sr.Stops))
			if sr.Transp != "" {
				one.What = sr.Transp
				r.Violation("transparency", one, "script "+sr.Script.String()+": "+sr.Transp+"\n"+src)
			}
			if !sr.Verdict.OK {
				one.What, one.Want, one.Got = sr.Verdict.What, sr.Verdict.Want, sr.Verdict.Got
				r.Violation("stop-rule", one, "script "+sr.Script.String()+": "+sr.Verdict.What+"\n"+src)
				continue
			}
			if sr.Verdict.Stale > 0 {
				staleScripts++
				r.Count("stops_missed_in_stale_frames", int64(sr.Verdict.Stale))
				if staleScripts <= 2 {
					one.What = sr.Verdict.StaleAt
					r.Known(c19FindStale, one, "script "+sr.Script.String()+": "+sr.Verdict.StaleAt+"\n"+src)
				}
			}
			if sr.Verdict.DepthSkips+sr.Verdict.DepthShift > 0 {
				depthScripts++
				r.Count("stops_with_shifted_depth_during_panic", int64(sr.Verdict.DepthShift))
				r.Count("stops_not_taken_by_shifted_depth_during_panic", int64(sr.Verdict.DepthSkips))
				if depthScripts <= 2 {
					one.What = sr.Verdict.DepthAt
					r.Known(c19FindDepth, one, "script "+sr.Script.String()+": "+sr.Verdict.DepthAt+"\n"+src)
				}
			}
			if sr.Verdict.Truncated {
				r.Count("scripts_compared_only_up_to_a_known_defect", 1)
			}
			if !sr.Trivial {
				r.Distinct(sr.Key)
			}
			for _, c := range sr.Cells {
				r.Cover("command@kind->next_stop", c)
			}
			if samples < 6 && !sr.Trivial && sr.Stops >= 4 {
				samples++
				r.Sample(map[string]interface{}{"program": id, "script": sr.Script.String(), "stops": sr.Stops, "trace_len": rep.TLen, "cells": sr.Cells})
			}
		}
	}
	r.Count("programs_usable", int64(usable))
	r.Count("programs_unusable", int64(unusable))
	r.Count("scripts_touching_"+c19FindStale, int64(staleScripts))
	r.Count("scripts_touching_"+c19FindDepth, int64(depthScripts))
	if usable < nprog/3 {
		r.Inconclusive(fmt.Sprintf("only %d of %d programs usable", usable, nprog))
	}
}
