package main

import _ "embed"

//go:embed interop_helpers.go
var interopSrc string

// interopFuncs are declared in the interpreter by the worker when Mode["interop"] is set.
var interopFuncs = map[string]interface{}{
	"iopStringer": iopStringer, "iopError": iopError, "iopRead": iopRead, "iopWrite": iopWrite, "iopSort": iopSort,
	"iopCallN": iopCallN, "iopCallV": iopCallV, "iopCallM": iopCallM, "iopCallP": iopCallP, "iopCallI": iopCallI,
	"iopAdder": iopAdder, "iopApply": iopApply, "iopLookup": iopLookup, "iopField": iopField, "iopChan": iopChan,
	"iopCompose": iopCompose, "iopPtr": iopPtr, "iopTypes": iopTypes,
}
