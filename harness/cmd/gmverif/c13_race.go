//go:build race

package main

// C13 asynchronous delivery must not run under the race detector (see DESIGN.md C13 note).
const c13RaceBuild = true
