package main

// `gmverif c14repl <file>`: debug aid. The file holds REPL inputs separated by lines containing only ";;".
// Every input is evaluated (Compile + RunExpr) in ONE interpreter, like the REPL does; errors are printed
// and the session continues.

import (
	"encoding/json"
	"fmt"
	"gmverif/internal/fw"
	"os"
	"strings"

	"github.com/cosmos72/gomacro/fast"
	"github.com/cosmos72/gomacro/go/etoken"

	"gmverif/internal/tr"
)

func init() {
	auxCmds["c14repl"] = func(args []string) {
		data, err := os.ReadFile(args[0])
		if err != nil {
			panic(err)
		}
		etoken.GENERICS = etoken.GENERICS_V2_CTI
		ir := newQuietInterp()
		trace := &tr.Trace{}
		ir.DeclFunc("rec", func(tag int, v ...interface{}) { trace.Rec(tag, v...) })
		ir.DeclFunc("hk", func() { trace.Hooks++ })
		for i, in := range strings.Split(string(data), "\n;;\n") {
			in = strings.TrimSpace(in)
			if in == "" {
				continue
			}
			n := len(trace.Events)
			var e *fast.Expr
			if r, bad := guard(func() { e = ir.Compile(in) }); bad {
				fmt.Printf("[%d] %s\n    COMPILE ERROR: %s\n", i, c14Clip(in), panicText(r))
				continue
			}
			var out string
			if r, bad := guard(func() {
				vs, _ := ir.RunExpr(e)
				for _, v := range vs {
					if v.IsValid() && v.CanInterface() {
						out += " " + tr.Render(v.Interface())
					}
				}
			}); bad {
				fmt.Printf("[%d] %s\n    RUN PANIC: %s\n", i, c14Clip(in), panicText(r))
				continue
			}
			fmt.Printf("[%d] %s\n    =>%s %v\n", i, c14Clip(in), out, trace.Events[n:])
		}
		fmt.Println("hooks:", trace.Hooks)
	}
}

func c14Clip(s string) string {
	s = strings.Join(strings.Fields(s), " ")
	if len(s) > 160 {
		s = s[:160] + "..."
	}
	return s
}

func init() {
	// `gmverif c14gen <i> [seed]`: print history i of the quick tier as a Prog JSON line (pipe into `gmverif e1worker`).
	auxCmds["c14gen"] = func(args []string) {
		var i int
		fmt.Sscan(args[0], &i)
		os.Setenv("VERIF_TIER", "quick")
		r := fw.NewRun("C14", "exploration")
		seed := r.Rng("histories").Int63()
		p, _ := c14History(i, seed, false)
		data, _ := json.Marshal(p)
		fmt.Println(string(data))
	}
}

func init() {
	// `gmverif c14ref <n> <dir>`: write the compiled-reference module of the first n quick histories to dir
	auxCmds["c14ref"] = func(args []string) {
		var n int
		fmt.Sscan(args[0], &n)
		os.Setenv("VERIF_TIER", "quick")
		r := fw.NewRun("C14", "exploration")
		seed := r.Rng("histories").Int63()
		var progs []*Prog
		for i := 0; i < n; i++ {
			p, _ := c14History(i, seed, false)
			progs = append(progs, p)
		}
		os.MkdirAll(args[1], 0o755)
		refWrite(args[1], progs, nil)
	}
}
