package main

// C35 — the fixed part of the template vocabulary: program-declared named types, generic type
// templates and hand-written generic function templates (each with alternative bodies). Random
// templates (c35_gen.go) are built on top of these.

import "strings"

// constraint a type argument has to satisfy so that the instantiation compiles
const (
	c35Any    = ""
	c35Cmp    = "cmp"
	c35Ord    = "ord"
	c35Add    = "add"
	c35HasX   = "hasx"
	c35Double = "double"
	c35Len    = "len"
	c35Assert = "assert"
	c35Rec    = "recable" // values are handed to rec() inside the template
)

type c35Fn struct {
	Name    string
	TP      []string
	Cons    []string // per type parameter
	Params  []c35Param
	Res     []*c35Tx
	Bodies  []string // alternative bodies (statements, gomacro syntax)
	Body    string   // the body chosen for this program
	NoInfer bool
	Random  bool
}

func (f *c35Fn) header() string {
	var ps []string
	for _, p := range f.Params {
		if p.Variadic {
			ps = append(ps, p.Name+" ..."+p.T.A[0].String())
		} else {
			ps = append(ps, p.Name+" "+p.T.String())
		}
	}
	return "(" + strings.Join(ps, ", ") + ")" + c35ResString(f.Res)
}

func (f *c35Fn) rest() string { return f.header() + " {\n" + f.Body + "\n}\n" }

func (f *c35Fn) decl() string {
	return "func §" + f.Name + "#[" + strings.Join(f.TP, ",") + "]" + f.rest()
}

func (f *c35Fn) fwdArgs() string {
	var as []string
	for _, p := range f.Params {
		if p.Variadic {
			as = append(as, p.Name+"...")
		} else {
			as = append(as, p.Name)
		}
	}
	return strings.Join(as, ", ")
}

func c35MkFn(name, tps, cons, params, res string, bodies ...string) *c35Fn {
	f := &c35Fn{Name: name, TP: strings.Split(tps, ","), Params: c35ParseParams(params), Res: c35ParseResults(res), Bodies: bodies}
	f.Cons = make([]string, len(f.TP))
	if cons != "" {
		cs := strings.Split(cons, ",")
		copy(f.Cons, cs)
	}
	return f
}

func c35MkType(name, tps, body string) *c35TypeTmpl {
	tt := &c35TypeTmpl{Name: name, TP: strings.Split(tps, ",")}
	if strings.HasPrefix(body, "= ") {
		tt.Alias = true
		body = body[2:]
	}
	tt.Body = c35ParseType(body)
	tt.Rec = strings.Contains(body, "§"+name+"#[")
	return tt
}

const c35NamedDecls = `type §MyInt int
func (m §MyInt) Double() §MyInt { return m * 2 }
type §Str string
type §Pt struct { X int; Y int }
func (p §Pt) Double() §Pt { return §Pt{p.X * 2, p.Y * 2} }
type §Strs []string
type §Fn func(int) int
type §Flt float64
func §rc(tag int) { if r := recover(); r != nil { rec(-tag, pcl(r)) } }
`

func c35NewCtx() *c35Ctx {
	c := &c35Ctx{Named: map[string]*c35Named{}, Types: map[string]*c35TypeTmpl{}}
	add := func(name, under string, dbl bool) {
		c.Named[name] = &c35Named{Name: name, Under: c35ParseType(under), Double: dbl}
	}
	add("§MyInt", "int", true)
	add("§Str", "string", false)
	add("§Pt", "struct{X int; Y int}", true)
	add("§Strs", "[]string", false)
	add("§Fn", "func(int) int", false)
	add("§Flt", "float64", false)
	for _, tt := range c35LibTypes() {
		c.Types[tt.Name] = tt
	}
	return c
}

func c35LibTypes() []*c35TypeTmpl {
	return []*c35TypeTmpl{
		c35MkType("Box", "T", "struct{Elem T}"),
		c35MkType("Pair", "T,U", "struct{First T; Second U}"),
		// (no self-referential templates here: independently of generics the interpreter mishandles recursive named
		// types in several ways - nil conversion, methods, results passing through a forward-declared type - so
		// they are exercised only by the in-process identity part, c35_memo.go)
		c35MkType("Stack", "T", "struct{Items []T; N int}"),
		c35MkType("Opt", "T", "struct{Item T; Ok bool}"),
		c35MkType("Vec", "T", "[]T"),
		c35MkType("Dict", "K,V", "map[K]V"),
		c35MkType("Fun", "T,U", "func(T) U"),
		c35MkType("Arr3", "T", "[3]T"),
		c35MkType("Ref", "T", "*T"),
		c35MkType("Ch", "T", "chan T"),
		c35MkType("Al", "T", "= []T"),
		c35MkType("Pairs", "T,U", "[]§Pair#[T,U]"),
		c35MkType("Nest", "T", "struct{B §Box#[T]; L []§Box#[T]; M map[string]§Pair#[T,T]}"),
		c35MkType("Trip", "T,U,V", "struct{A0 T; A1 []U; A2 map[string]V; A3 §Pair#[U,V]}"),
		c35MkType("Cb", "T,U", "struct{F func(T) U; Last U}"),
	}
}

func c35LibFns() []*c35Fn {
	return []*c35Fn{
		c35MkFn("Id", "T", "", "v T", "T", "return v", "w := v\nreturn w", "f := func() T { return v }\nreturn f()"),
		c35MkFn("Zero", "T", "", "", "T", "var z T\nreturn z", "var z [1]T\nreturn z[0]", "return *new(T)"),
		c35MkFn("Sum", "T", "add", "v ...T", "T",
			"var s T\nfor _, e := range v {\ns += e\n}\nreturn s",
			"var s T\nfor i := 0; i < len(v); i++ {\ns = s + v[i]\n}\nreturn s",
			"if len(v) == 0 {\nvar z T\nreturn z\n}\nreturn v[0] + §Sum#[T](v[1:]...)"),
		c35MkFn("Map", "T,U", "", "s []T, f func(T) U", "[]U",
			"r := make([]U, len(s))\nfor i := range s {\nr[i] = f(s[i])\n}\nreturn r",
			"var r []U\nfor _, e := range s {\nr = append(r, f(e))\n}\nreturn r",
			"if len(s) == 0 {\nreturn nil\n}\nreturn append([]U{f(s[0])}, §Map#[T,U](s[1:], f)...)"),
		c35MkFn("Filter", "T", "", "s []T, p func(T) bool", "[]T",
			"var r []T\nfor _, e := range s {\nif p(e) {\nr = append(r, e)\n}\n}\nreturn r",
			"r := make([]T, 0, len(s))\nfor i := len(s) - 1; i >= 0; i-- {\nif !p(s[i]) {\ncontinue\n}\nr = append(r, s[i])\n}\nreturn r"),
		c35MkFn("Fold", "T,U", "", "s []T, z U, f func(U, T) U", "U",
			"a := z\nfor _, e := range s {\na = f(a, e)\n}\nreturn a",
			"if len(s) == 0 {\nreturn z\n}\nreturn §Fold#[T,U](s[1:], f(z, s[0]), f)"),
		c35MkFn("Count", "T", "cmp", "s []T, x T", "int",
			"n := 0\nfor _, e := range s {\nif e == x {\nn++\n}\n}\nreturn n",
			"n := 0\nfor i := range s {\nif s[i] != x {\ncontinue\n}\nn++\n}\nreturn n"),
		c35MkFn("Max", "T", "ord", "a T, rest ...T", "T",
			"m := a\nfor _, e := range rest {\nif m < e {\nm = e\n}\n}\nreturn m",
			"if len(rest) == 0 {\nreturn a\n}\nm := §Max#[T](rest[0], rest[1:]...)\nif m > a {\nreturn m\n}\nreturn a"),
		c35MkFn("Compose", "T,U,V", "", "f func(T) U, g func(U) V", "func(T) V",
			"return func(x T) V {\nreturn g(f(x))\n}",
			"h := func(x T) V {\ny := f(x)\nreturn g(y)\n}\nreturn h"),
		c35MkFn("Counter", "T", "", "vals []T", "func() (T, int)",
			"i := 0\nreturn func() (T, int) {\nvar z T\nif i < len(vals) {\nz = vals[i]\n}\ni++\nreturn z, i\n}"),
		c35MkFn("Rev", "T", "", "s []T", "[]T",
			"if len(s) == 0 {\nreturn nil\n}\nreturn append(§Rev#[T](s[1:]), s[0])",
			"r := make([]T, len(s))\nfor i, e := range s {\nr[len(s)-1-i] = e\n}\nreturn r"),
		c35MkFn("Repeat", "T", "", "v T, n int=0|1|3", "[]T",
			"if n <= 0 {\nreturn nil\n}\nreturn append(§Repeat#[T](v, n-1), v)",
			"var r []T\nfor i := 0; i < n; i++ {\nr = append(r, v)\n}\nreturn r"),
		c35MkFn("MapSum", "T,U", ",add", "s []T, f func(T) U", "U",
			"return §Sum#[U](§Map#[T,U](s, f)...)",
			"return §Fold#[T,U](s, §Zero#[U](), func(a U, e T) U {\nreturn a + f(e)\n})"),
		c35MkFn("Swap", "T,U", "", "a T, b U", "(U, T)", "return b, a", "x, y := a, b\nreturn y, x"),
		c35MkFn("MkPair", "T,U", "", "a T, b U", "§Pair#[T,U]",
			"return §Pair#[T,U]{a, b}", "var p §Pair#[T,U]\np.First = a\np.Second = b\nreturn p", "return §Pair#[T,U]{Second: b, First: a}"),
		c35MkFn("SwapPair", "T,U", "", "p §Pair#[T,U]", "§Pair#[U,T]",
			"return §Pair#[U,T]{p.Second, p.First}", "return §MkPair#[U,T](p.Second, p.First)"),
		c35MkFn("Zip", "T,U", "", "a []T, b []U", "[]§Pair#[T,U]",
			"var r []§Pair#[T,U]\nfor i := range a {\nif i >= len(b) {\nbreak\n}\nr = append(r, §MkPair#[T,U](a[i], b[i]))\n}\nreturn r",
			"var r §Pairs#[T,U]\nfor i := 0; i < len(a) && i < len(b); i++ {\nr = append(r, §Pair#[T,U]{a[i], b[i]})\n}\nreturn r"),
		c35MkFn("MapBox", "T,U", "", "b §Box#[T], f func(T) U", "§Box#[U]",
			"return §Box#[U]{f(b.Elem)}", "var r §Box#[U]\nr.Elem = f(b.Elem)\nreturn r"),
		c35MkFn("SetBox", "T", "", "v T, w T", "§Box#[T]",
			"b := &§Box#[T]{v}\nb.Elem = w\nreturn *b", "var b §Box#[T]\np := &b.Elem\n*p = w\nreturn b"),
		c35MkFn("Push", "T", "", "s *§Stack#[T], v T", "",
			"s.Items = append(s.Items, v)\ns.N++"),
		c35MkFn("Pop", "T", "", "s *§Stack#[T]", "(T, bool)",
			"var z T\nif s.N == 0 {\nreturn z, false\n}\ns.N--\nz = s.Items[s.N]\ns.Items = s.Items[:s.N]\nreturn z, true"),
		c35MkFn("StackRound", "T", "", "vs []T", "([]T, int)",
			"var st §Stack#[T]\nfor _, v := range vs {\n§Push#[T](&st, v)\n}\nn := st.N\nvar out []T\nfor {\nv, ok := §Pop#[T](&st)\nif !ok {\nbreak\n}\nout = append(out, v)\n}\nreturn out, n"),
		c35MkFn("Some", "T", "", "v T", "§Opt#[T]", "return §Opt#[T]{v, true}", "return §Opt#[T]{Ok: true, Item: v}"),
		c35MkFn("OrElse", "T", "", "o §Opt#[T], d T", "T", "if o.Ok {\nreturn o.Item\n}\nreturn d"),
		c35MkFn("Find", "T", "cmp", "s []T, x T", "§Opt#[int]",
			"for i, e := range s {\nif e == x {\nreturn §Some#[int](i)\n}\n}\nreturn §Opt#[int]{}",
			"for i := 0; i < len(s); i++ {\nif s[i] == x {\nreturn §Opt#[int]{i, true}\n}\n}\nvar none §Opt#[int]\nreturn none"),
		c35MkFn("VecMap", "T,U", "", "v §Vec#[T], f §Fun#[T,U]", "§Vec#[U]",
			"r := make(§Vec#[U], 0, len(v))\nfor _, e := range v {\nr = append(r, f(e))\n}\nreturn r",
			"return §Vec#[U](§Map#[T,U](v, f))"),
		c35MkFn("Index", "K,V", "cmp", "ks []K, vs []V", "§Dict#[K,V]",
			"d := §Dict#[K,V]{}\nfor i, k := range ks {\nif i < len(vs) {\nd[k] = vs[i]\n}\n}\nreturn d",
			"d := make(§Dict#[K,V], len(ks))\nfor i := 0; i < len(ks) && i < len(vs); i++ {\nd[ks[i]] = vs[i]\n}\nreturn d"),
		c35MkFn("DictGet", "K,V", "cmp", "d §Dict#[K,V], k K", "(V, bool)",
			"v, ok := d[k]\nreturn v, ok", "if v, ok := d[k]; ok {\nreturn v, true\n}\nvar z V\nreturn z, false"),
		c35MkFn("Dbl", "T", "double", "v T", "T", "return v.Double()", "w := v.Double()\nreturn w.Double()"),
		c35MkFn("GetX", "T", "hasx", "v T", "int", "return v.X", "x := v.X\nreturn x + 1"),
		c35MkFn("LenOf", "T", "len", "v T", "int", "return len(v)", "n := len(v)\nreturn n * 2"),
		c35MkFn("Fill3", "T", "", "v T", "§Arr3#[T]",
			"var a §Arr3#[T]\nfor i := range a {\na[i] = v\n}\nreturn a", "return §Arr3#[T]{v, v, v}"),
		c35MkFn("Deref", "T", "", "r §Ref#[T]", "T", "if r == nil {\nvar z T\nreturn z\n}\nreturn *r", "p := r\nif p != nil {\nv := *p\nreturn v\n}\nreturn §Zero#[T]()"),
		c35MkFn("SendRecv", "T", "", "v T, w T", "(T, int)",
			"c := make(§Ch#[T], 2)\nc <- v\nc <- w\nx := <-c\nreturn x, len(c)",
			"var c §Ch#[T] = make(chan T, 3)\nc <- w\nc <- v\nclose(c)\nvar last T\nn := 0\nfor x := range c {\nlast = x\nn++\n}\nreturn last, n"),
		c35MkFn("Is", "T", "assert", "i interface{}", "bool", "_, ok := i.(T)\nreturn ok", "switch i.(type) {\ncase T:\nreturn true\n}\nreturn false"),
		c35MkFn("Even", "T", "", "v T, n int=0|1|2|5", "[]T",
			"if n <= 0 {\nreturn nil\n}\nreturn append(§Odd#[T](v, n-1), v)"),
		c35MkFn("Odd", "T", "", "v T, n int=0|1|2|4", "[]T",
			"if n <= 0 {\nreturn []T{}\n}\nreturn §Even#[T](v, n-1)"),
		c35MkFn("Twice", "T", "", "f func(T) T, v T", "T", "return f(f(v))", "return §Compose#[T,T,T](f, f)(v)"),
		c35MkFn("MkNest", "T", "", "v T", "§Nest#[T]",
			"return §Nest#[T]{§Box#[T]{v}, []§Box#[T]{{v}, {v}}, map[string]§Pair#[T,T]{\"k\": {v, v}}}",
			"var n §Nest#[T]\nn.B.Elem = v\nn.L = append(n.L, n.B)\nn.M = map[string]§Pair#[T,T]{}\nn.M[\"k\"] = §MkPair#[T,T](v, v)\nreturn n"),
		c35MkFn("MkTrip", "T,U,V", "", "a T, b U, c V", "§Trip#[T,U,V]",
			"return §Trip#[T,U,V]{a, []U{b}, map[string]V{\"c\": c}, §Pair#[U,V]{b, c}}",
			"var t §Trip#[T,U,V]\nt.A0 = a\nt.A1 = append(t.A1, b, b)\nt.A3 = §MkPair#[U,V](b, c)\nreturn t"),
		c35MkFn("CallCb", "T,U", "", "f func(T) U, v T", "§Cb#[T,U]",
			"return §Cb#[T,U]{f, f(v)}", "c := §Cb#[T,U]{F: f}\nc.Last = c.F(v)\nreturn c"),
	}
}
