package main

// C21 — quote / quasiquote / unquote / unquote_splice in both interpreters.
//
// Workload: random ~quote values bound to interpreter variables, and random ~quasiquote templates
// (expressions, statements, blocks, call argument lists, case clauses, switch bodies, nested
// quasiquotes up to depth 3) with ~unquote / ~unquote_splice chains at random positions whose
// evaluated payloads are trees the harness knows (bound variables, literal ~quote forms, integer and
// string literals, nested ~quasiquote forms).
//
// Oracles
//  1. ~quote{X} == collapse(parse(X))                      (both interpreters, exact incl. parentheses)
//  2. fast(~quasiquote{X}) == model(parse(X))              (substitution model in c21_model.go)
//  3. fast(~quasiquote{X}) == classic(~quasiquote{X})
//  4. running the same compiled/parsed form twice gives equal trees that share no node, except nodes
//     of the values that were unquoted into them (variables, literal ~quote forms in evaluated position)
//
// What "structurally identical" ignores (see c21_tree.go): positions, ExprStmt/DeclStmt wrappers,
// ParenExpr nodes (oracles 2-4 only), OP{{a;b}} vs OP{a;b} in nested quote-family bodies, and - only
// for a template that is solely an ~unquote_splice, at the top level of its result - a one-statement
// block vs that statement / an empty block vs the empty statement (fast returns the block, classic
// collapses it like ~quote{x} does; neither behaviour is documented or tested).

import (
	"fmt"
	"go/ast"
	"io"
	"reflect"
	"runtime"
	"strings"
	"sync"

	"github.com/cosmos72/gomacro/ast2"
	"github.com/cosmos72/gomacro/classic"
	"github.com/cosmos72/gomacro/fast"

	"gmverif/internal/fw"
)

func init() { register("C21", "exploration", checkC21) }

const (
	c21LeafFinding  = "C21-classic-quasiquote-shares-leaf-nodes"
	c21EmptyFinding = "C21-fast-splice-to-empty-list-panics"
	c21DeclFinding  = "C21-fast-nested-quote-of-declaration-panics"
	c21NilDeref     = "runtime error: invalid memory address or nil pointer dereference"
)

type c21Interps struct {
	f *fast.Interp
	c *classic.Interp
}

func c21NewInterps() *c21Interps {
	ip := &c21Interps{f: fast.New(), c: classic.New()}
	ip.f.Comp.Globals.Stdout = io.Discard
	ip.f.Comp.Globals.Stderr = io.Discard
	ip.c.Env.Globals.Stdout = io.Discard
	ip.c.Env.Globals.Stderr = io.Discard
	decl := "var " + strings.Join(c21AllVars(), ", ") + " interface{}"
	if _, e := ip.evalFast(decl); e != "" {
		panic("c21: fast cannot declare variables: " + e)
	}
	if _, e := ip.evalClassic(decl); e != "" {
		panic("c21: classic cannot declare variables: " + e)
	}
	return ip
}

func c21Recover(err *string) {
	if e := recover(); e != nil {
		*err = fmt.Sprintf("%v", e)
		if *err == "" {
			*err = "panic"
		}
	}
}

// evalFast evaluates src in the fast interpreter; returns the first result or the error text.
func (ip *c21Interps) evalFast(src string) (ret interface{}, err string) {
	defer c21Recover(&err)
	vals, _ := ip.f.Eval(src)
	if len(vals) == 0 || !vals[0].IsValid() {
		return nil, ""
	}
	return c21Iface(vals[0].ReflectValue()), ""
}

func (ip *c21Interps) evalClassic(src string) (ret interface{}, err string) {
	defer c21Recover(&err)
	v, _ := ip.c.Eval(src)
	return c21Iface(v), ""
}

func c21Iface(v reflect.Value) interface{} {
	if !v.IsValid() || !v.CanInterface() {
		return nil
	}
	return v.Interface()
}

// parse parses src with the fast interpreter's parser configuration, without macroexpansion.
func (ip *c21Interps) parse(src string) (nodes []ast.Node, err string) {
	defer c21Recover(&err)
	return ip.f.Comp.ParseBytes([]byte(src)), ""
}

// fastTwice parses+macroexpands+compiles src once and runs the compiled expression twice.
func (ip *c21Interps) fastTwice(src string) (form interface{}, r1, r2 interface{}, err string) {
	defer c21Recover(&err)
	f := ip.f.Parse(src)
	form = f.Interface()
	expr := ip.f.CompileAst(f)
	for i := 0; i < 2; i++ {
		vals, _ := ip.f.RunExpr(expr)
		var r interface{}
		if len(vals) != 0 && vals[0].IsValid() {
			r = c21Iface(vals[0].ReflectValue())
		}
		if i == 0 {
			r1 = r
		} else {
			r2 = r
		}
	}
	return
}

// classicTwice parses+macroexpands src once and evaluates the same tree twice.
func (ip *c21Interps) classicTwice(src string) (form interface{}, r1, r2 interface{}, err string) {
	defer c21Recover(&err)
	f := ip.c.Parse(src)
	form = f.Interface()
	v1, _ := ip.c.EvalAst(f)
	r1 = c21Iface(v1)
	v2, _ := ip.c.EvalAst(f)
	r2 = c21Iface(v2)
	return
}

// c21LiteralQuotePtrs collects the nodes of ~quote bodies that sit in evaluated position (quasiquote
// depth 0) inside the source form x: evaluating a ~quote returns that very tree, so such nodes may
// legitimately appear in every result.
func c21LiteralQuotePtrs(v reflect.Value, depth int, out map[uintptr]ast.Node) {
	switch v.Kind() {
	case reflect.Interface:
		if !v.IsNil() {
			c21LiteralQuotePtrs(v.Elem(), depth, out)
		}
	case reflect.Slice:
		for i := 0; i < v.Len(); i++ {
			c21LiteralQuotePtrs(v.Index(i), depth, out)
		}
	case reflect.Ptr:
		if v.IsNil() || v.Elem().Kind() != reflect.Struct {
			return
		}
		t := v.Type()
		if t == c21ObjType || t == c21ScopeType || t == c21CommentType {
			return
		}
		if u, ok := v.Interface().(*ast.UnaryExpr); ok {
			if _, isFun := u.X.(*ast.FuncLit); isFun {
				switch c21QuoteKind(u.Op) {
				case c21Quote:
					if depth == 0 {
						c21RawPtr(v, out)
						return
					}
				case c21QQ:
					depth++
				case c21Unq, c21Splice:
					depth--
				}
			}
		}
		s := v.Elem()
		for i := 0; i < s.NumField(); i++ {
			switch s.Field(i).Kind() {
			case reflect.Interface, reflect.Ptr, reflect.Slice:
				c21LiteralQuotePtrs(s.Field(i), depth, out)
			}
		}
	}
}

// c21Shared returns the nodes present in both results and in none of the allowed sets.
func c21Shared(r1, r2 interface{}, allowed ...map[uintptr]ast.Node) map[uintptr]ast.Node {
	p1, p2 := map[uintptr]ast.Node{}, map[uintptr]ast.Node{}
	c21RawPointers(r1, p1)
	c21RawPointers(r2, p2)
	bad := map[uintptr]ast.Node{}
	for p, n := range p1 {
		if _, ok := p2[p]; !ok {
			continue
		}
		ok := false
		for _, a := range allowed {
			if _, in := a[p]; in {
				ok = true
				break
			}
		}
		if !ok {
			bad[p] = n
		}
	}
	return bad
}

func c21NodeKinds(m map[uintptr]ast.Node) string {
	cnt := map[string]int{}
	for _, n := range m {
		cnt[strings.TrimPrefix(fmt.Sprintf("%T", n), "*ast.")]++
	}
	var parts []string
	for _, k := range c21SortedKeys(cnt) {
		parts = append(parts, fmt.Sprintf("%s:%d", k, cnt[k]))
	}
	return strings.Join(parts, " ")
}

type c21Replay struct {
	Bindings []c21Binding `json:"bindings"`
	Template string       `json:"template,omitempty"`
	Quote    string       `json:"quote,omitempty"`
	Model    string       `json:"model,omitempty"`
	Fast     string       `json:"fast,omitempty"`
	Classic  string       `json:"classic,omitempty"`
}

type c21Worker struct {
	r       *fw.Run
	ip      *c21Interps
	vars    map[string]*c21T
	fastVar map[uintptr]ast.Node // nodes of the trees bound to variables in the fast interpreter
	clasVar map[uintptr]ast.Node
	binds   []c21Binding
	verbose bool
}

func (w *c21Worker) tree(x interface{}) (*c21T, string) {
	if x == nil {
		return nil, "no value"
	}
	if _, ok := x.(ast.Node); !ok {
		return nil, fmt.Sprintf("result is a %T, not an ast.Node", x)
	}
	return c21FromNode(x), ""
}

// bind evaluates the ~quote bindings in both interpreters (oracle 1) and records their trees.
func (w *c21Worker) bind(binds []c21Binding) bool {
	r := w.r
	w.binds = binds
	w.vars = map[string]*c21T{}
	w.fastVar, w.clasVar = map[uintptr]ast.Node{}, map[uintptr]ast.Node{}
	m := &c21Model{}
	ok := true
	for _, b := range binds {
		nodes, perr := w.ip.parse(b.Src)
		if perr != "" || len(nodes) != 1 {
			r.Count("generator_parse_errors", 1)
			if w.verbose {
				fmt.Printf("binding %s = %s: parse error %s\n", b.Name, b.Src, perr)
			}
			return false
		}
		form := c21FromNode(nodes[0])
		if form == nil || form.K != c21Quote {
			r.Count("generator_parse_errors", 1)
			return false
		}
		want := m.quoteValue(form)
		w.vars[b.Name] = want
		for _, side := range []string{"fast", "classic"} {
			ev := w.ip.evalFast
			vp := w.fastVar
			if side == "classic" {
				ev, vp = w.ip.evalClassic, w.clasVar
			}
			_, e1 := ev(b.Name + " = " + b.Src)
			got, e2 := ev(b.Name)
			var gt *c21T
			terr := e1 + e2
			if terr == "" {
				gt, terr = w.tree(got)
			}
			r.Eval(1)
			gs := "error: " + terr
			if terr == "" {
				gs = gt.String()
				c21RawPointers(got, vp)
			}
			if w.verbose {
				fmt.Printf("%-7s %s = %s\n        -> %s\n", side, b.Name, b.Src, gs)
			}
			if gs != want.String() {
				ok = false
				rep := c21Replay{Quote: b.Src, Model: want.String()}
				if side == "fast" {
					rep.Fast = gs
				} else {
					rep.Classic = gs
				}
				r.Violation("quote-"+side, rep, fmt.Sprintf("%s: %s evaluates to %s, the parsed tree of its body is %s", side, b.Src, gs, want))
			} else {
				r.Cover("quote_value_kind", b.kind)
				if r.Distinct("quote|" + b.Src) {
					r.Count("distinct_quote_values", 1)
				}
			}
		}
		if w.verbose {
			fmt.Printf("model   %s -> %s\n", b.Name, want)
		}
	}
	return ok
}

// runCase checks one quasiquote template against oracles 2-4.
func (w *c21Worker) runCase(tmpl, shape string) {
	r := w.r
	nodes, perr := w.ip.parse(tmpl)
	if perr != "" || len(nodes) != 1 {
		r.Count("generator_parse_errors", 1)
		if w.verbose {
			fmt.Printf("template %s parse error: %s\n", tmpl, perr)
		}
		return
	}
	form := c21FromNode(nodes[0])
	if form == nil || form.K != c21QQ {
		r.Count("generator_parse_errors", 1)
		return
	}
	cover := map[[2]string]int{}
	m := &c21Model{vars: w.vars, cover: func(t, c string) { cover[[2]string{t, c}]++ }}
	want := m.qqValue(form)
	if m.err != "" {
		r.Count("outside_model_domain: "+m.err, 1)
		if w.verbose {
			fmt.Printf("outside the modelled domain: %s\n", m.err)
		}
		return
	}
	// top-level view: exact, except for a template that is solely an ~unquote_splice, where the
	// interpreters disagree on one-statement/empty block vs statement/empty statement
	soleSplice := false
	if b := form.C[0]; len(b.C) == 1 && b.C[0] != nil && b.C[0].K == c21Splice {
		soleSplice = true
	}
	top := func(t *c21T) string {
		if soleSplice {
			return c21Seq(t.norm()).String()
		}
		return t.norm().String()
	}
	wantS := top(want)

	rep := c21Replay{Bindings: w.binds, Template: tmpl, Model: wantS}
	fform, f1, f2, ferr := w.ip.fastTwice(tmpl)
	cform, c1, c2, cerr := w.ip.classicTwice(tmpl)
	side := func(x1, x2 interface{}, err string) (s1, s2, raw string) {
		if err != "" {
			return "error: " + err, "", ""
		}
		t1, e := w.tree(x1)
		if e != "" {
			return "error: " + e, "", ""
		}
		t2, e := w.tree(x2)
		if e != "" {
			return top(t1), "error (second run): " + e, t1.norm().String()
		}
		return top(t1), top(t2), t1.norm().String()
	}
	fs1, fs2, fraw := side(f1, f2, ferr)
	cs1, cs2, craw := side(c1, c2, cerr)
	rep.Fast, rep.Classic = fs1, cs1
	if w.verbose {
		fmt.Printf("template %s\nmodel    %s\nfast     %s\nclassic  %s\nfast    (top level as returned) %s\nclassic (top level as returned) %s\n", tmpl, wantS, fs1, cs1, fraw, craw)
	}

	// oracle 2: model vs fast
	r.Eval(1)
	okAll := true
	fastKnown := false
	if fs1 != wantS {
		what := fmt.Sprintf("%s with %s: fast returns %s, substitution model gives %s", tmpl, c21BindText(w.binds, tmpl), fs1, wantS)
		if ferr == c21NilDeref && len(m.emptied) != 0 {
			// known defect shape: a slice-typed list that ends up empty makes the fast interpreter
			// convert an invalid reflect.Value (fast/quasiquote.go: xr.ValueOf(out.Interface()).Convert)
			fastKnown = true
			r.Count("fast_panics_on_list_spliced_to_empty", 1)
			r.Known(c21EmptyFinding, rep, what+fmt.Sprintf(" (every element of %v was an unquote_splice of an empty block)", m.emptied))
		} else if m.quotedDecl && strings.HasPrefix(ferr, "token(") && strings.Contains(ferr, "expecting statement or expression, found *ast.GenDecl") {
			// known defect shape: rebuilding a nested OP{declaration} calls parser.MakeQuote with an ast.Decl
			fastKnown = true
			r.Count("fast_panics_on_nested_quote_of_declaration", 1)
			r.Known(c21DeclFinding, rep, what)
		} else {
			okAll = false
			r.Violation("model-vs-fast", rep, what)
		}
	}
	// oracle 3: fast vs classic (model vs classic when fast hit the known defect)
	r.Eval(1)
	if fastKnown {
		if cs1 != wantS {
			okAll = false
			r.Violation("model-vs-classic", rep, fmt.Sprintf("%s with %s: classic returns %s, substitution model gives %s", tmpl, c21BindText(w.binds, tmpl), cs1, wantS))
		}
	} else if fs1 != cs1 {
		okAll = false
		r.Violation("fast-vs-classic", rep, fmt.Sprintf("%s with %s: fast returns %s, classic returns %s (model %s)", tmpl, c21BindText(w.binds, tmpl), fs1, cs1, wantS))
	} else if fraw != craw && ferr == "" && cerr == "" {
		r.Cover("tolerated_differences", "template is a sole unquote_splice: one-statement/empty block (fast) vs statement/empty statement (classic)")
	}
	// oracle 4: fresh trees
	if ferr == "" && !strings.HasPrefix(fs1, "error") {
		r.Eval(1)
		lit, src := map[uintptr]ast.Node{}, map[uintptr]ast.Node{}
		c21LiteralQuotePtrs(reflect.ValueOf(fform), 0, lit)
		c21RawPointers(fform, src)
		if fs2 != fs1 {
			okAll = false
			r.Violation("fast-second-run-differs", rep, fmt.Sprintf("%s: running the compiled form again returns %s, first run %s", tmpl, fs2, fs1))
		} else if bad := c21Shared(f1, f2, w.fastVar, lit); len(bad) != 0 {
			okAll = false
			inSrc := 0
			for p := range bad {
				if _, ok := src[p]; ok {
					inSrc++
				}
			}
			r.Violation("fast-not-fresh", rep, fmt.Sprintf("%s: two runs of the compiled form share %d node(s) {%s} that come from no unquoted value (%d of them are nodes of the template itself)", tmpl, len(bad), c21NodeKinds(bad), inSrc))
		}
	}
	if cerr == "" && !strings.HasPrefix(cs1, "error") {
		r.Eval(1)
		lit, src := map[uintptr]ast.Node{}, map[uintptr]ast.Node{}
		c21LiteralQuotePtrs(reflect.ValueOf(cform), 0, lit)
		c21RawPointers(cform, src)
		if cs2 != cs1 {
			okAll = false
			r.Violation("classic-second-run-differs", rep, fmt.Sprintf("%s: evaluating the same tree again returns %s, first evaluation %s", tmpl, cs2, cs1))
		} else if bad := c21Shared(c1, c2, w.clasVar, lit); len(bad) != 0 {
			// known defect shape: classic returns the template's own childless nodes
			// (evalQuasiquoteAst: `if in == nil || in.Size() == 0 { return in }`)
			onlyLeaves := true
			for p, n := range bad {
				if _, ok := src[p]; !ok || n == nil || ast2.ToAst(n).Size() != 0 {
					onlyLeaves = false
				}
			}
			what := fmt.Sprintf("%s: two classic evaluations of the same form share %d node(s) {%s} that come from no unquoted value", tmpl, len(bad), c21NodeKinds(bad))
			if onlyLeaves {
				r.Count("classic_results_sharing_template_leaves", 1)
				r.Known(c21LeafFinding, rep, what+" (all are childless nodes of the template itself)")
			} else {
				okAll = false
				r.Violation("classic-not-fresh", rep, what)
			}
		}
	}

	if !okAll {
		return
	}
	for k, n := range cover {
		for i := 0; i < n; i++ {
			r.Cover(k[0], k[1])
		}
	}
	r.Cover("template_shape", shape)
	r.Cover("max_quasiquote_depth", fmt.Sprint(m.maxDepth))
	kinds := map[string]int{}
	want.kinds(kinds)
	for k := range kinds {
		r.Cover("result_node_kinds", k)
	}
	if m.evaluated > 0 {
		if r.Distinct("qq|" + tmpl + "|" + wantS) {
			r.Count("distinct_templates_with_evaluated_unquote", 1)
			if m.spliced > 0 {
				r.Count("distinct_templates_with_splice", 1)
			}
			if m.maxDepth >= 2 && r.Counter("sampled_deep") < 3 || r.Counter("sampled") < 3 {
				if m.maxDepth >= 2 {
					r.Count("sampled_deep", 1)
				} else {
					r.Count("sampled", 1)
				}
				r.Sample(map[string]interface{}{"template": tmpl, "with": c21BindText(w.binds, tmpl), "result": wantS})
			}
		}
	} else {
		r.Count("templates_without_evaluated_unquote", 1)
	}
}

// c21BindText lists the bindings the template mentions.
func c21BindText(binds []c21Binding, tmpl string) string {
	var parts []string
	for _, b := range binds {
		if strings.Contains(tmpl, b.Name) {
			parts = append(parts, b.Name+" = "+b.Src)
		}
	}
	return strings.Join(parts, " ; ")
}

func checkC21(r *fw.Run) {
	r.SetRule("a group = 14 random ~quote values bound to variables (expression, type, statement, blocks of 0-3 expressions, statement blocks, case clauses); a case = a random ~quasiquote template (expression / call / statement / statement list / case clause / switch / sole unquote / nested quasiquote; nesting depth 1-3; ~unquote and ~unquote_splice chains at random expression, statement, argument-list, case-list and block positions) whose evaluated unquotes are bound variables, literal ~quote forms, literals or nested ~quasiquote forms; distinct non-trivial = distinct (template text, model result) with >= 1 evaluated unquote, plus distinct ~quote values; oracle = reference substitution model == fast == classic (position-insensitive structural comparison), ~quote{X} == collapse(parse X), and two runs of the same form share no node except those of unquoted values")
	r.Assume("gomacro's parser gives the tree of X (the template and the quoted values are parsed with Comp.ParseBytes; C24/C25 check the parser)")
	r.Assume("comparison ignores positions, ExprStmt/DeclStmt wrappers, ParenExpr nodes in quasiquote results, OP{{a;b}} vs OP{a;b} in nested quote bodies, and - only for a template that is solely an ~unquote_splice - a one-statement/empty block vs the statement/empty statement at the top level of the result (fast returns the block, classic collapses it; neither is documented)")
	r.Assume("~quote returns the parsed tree itself (like Lisp QUOTE), so freshness is demanded of ~quasiquote results only; nodes of unquoted values (variables, literal ~quote forms in evaluated position) are inserted by reference and may be shared")
	r.Assume("templates with ~unquote_splice outside a list, unquote chains through parentheses or one-statement blocks, and statement values in expression slots are outside the property and are not generated (counted when the model meets one)")
	r.Assume("no macro is defined, so the macroexpansion pass that precedes evaluation leaves quote bodies untouched")

	if p := fw.ReplayArg(); p != "" {
		var rep c21Replay
		if err := fw.LoadReplay(p, &rep); err != nil {
			panic(err)
		}
		w := &c21Worker{r: r, ip: c21NewInterps(), verbose: true}
		if rep.Quote != "" {
			w.bind([]c21Binding{{Name: "qe0", Src: rep.Quote, kind: "replay"}})
		} else {
			w.bind(rep.Bindings)
			w.runCase(rep.Template, "replay")
		}
		r.SetMinDistinct(0)
		return
	}

	const streams = 32 // fixed, so the case list does not depend on the machine
	groups := r.Pick(40, 500)
	perGroup := r.Pick(40, 60)
	var wg sync.WaitGroup
	sem := make(chan struct{}, runtime.NumCPU())
	for s := 0; s < streams; s++ {
		wg.Add(1)
		go func(s int) {
			defer wg.Done()
			sem <- struct{}{}
			defer func() { <-sem }()
			defer func() {
				if e := recover(); e != nil {
					r.Inconclusive(fmt.Sprintf("harness panic in stream %d: %v", s, e))
				}
			}()
			g := &c21Gen{rng: r.Rng(fmt.Sprintf("gen-%d", s)), maxLv: 3}
			w := &c21Worker{r: r, ip: c21NewInterps()}
			for grp := 0; grp < groups; grp++ {
				if grp%50 == 49 {
					w.ip = c21NewInterps() // bound the growth of interpreter state
				}
				if !w.bind(g.bindings()) {
					continue
				}
				for i := 0; i < perGroup; i++ {
					tmpl, shape := g.template()
					r.Count("templates_generated", 1)
					w.runCase(tmpl, shape)
				}
			}
		}(s)
	}
	wg.Wait()

	gen := r.Counter("templates_generated")
	if pe := r.Counter("generator_parse_errors"); pe*20 > gen {
		r.Inconclusive(fmt.Sprintf("generator produced %d unparsable forms out of %d", pe, gen))
	}
	if nd := r.Counter("distinct_templates_with_evaluated_unquote"); nd*2 < gen {
		r.Inconclusive(fmt.Sprintf("only %d of %d templates were distinct, inside the modelled domain and evaluated an unquote", nd, gen))
	}
	r.SetMinDistinct(r.Pick(5000, 100000))
}
