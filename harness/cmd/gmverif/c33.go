package main

// C33 - goroutine identity and per-goroutine runtime state are never shared (engine E3, stress half).
//
// The parent (this file, normal build) starts race-detector children `gmverif-race c33worker <part> ...`
// with GOMAXPROCS in {1,2,4,16}, collects their JSON results and the race detector's log files.
//   part a: gls.GoID constant within a goroutine, never shared between live goroutines (c33_worker.go)
//   part b: interpreted closures run on many goroutines, ownership assertions + results + race reports (c33_worker.go)
//   part c: registry protocol histories, linearizability checked with porcupine (c33_lin.go)
// Model checking of the registry protocol (mentioned by the property's quantifier) is another technique and is NOT done.

import (
	"bytes"
	"encoding/json"
	"fmt"
	"os"
	"os/exec"
	"path/filepath"
	"regexp"
	"sort"
	"strings"
	"sync"
	"time"

	"github.com/anishathalye/porcupine"

	"gmverif/internal/fw"
)

func init() { register("C33", "exploration", checkC33) }

type c33Job struct {
	part    string
	procs   int
	only    int
	res     *c33Result
	err     string // child failed without a result
	fatal   string // child died of a Go runtime fatal error inside gomacro (e.g. concurrent map writes)
	logs    string // race detector output
	stopped bool   // killed by the parent after megabytes of race reports
	wall    float64
}

// c33RaceReport is one "WARNING: DATA RACE" block.
type c33RaceReport struct {
	text    string
	frames  [2]string // responsible frame of each of the two accesses ("" = unknown)
	gomacro bool      // at least one access is gomacro's; otherwise the report is the harness's own problem
}

var c33FuncLine = regexp.MustCompile(`^  (\S.*)\(.*\)$`)

func c33IsGomacro(fn string) bool { return strings.HasPrefix(fn, "github.com/cosmos72/gomacro/") }
func c33IsHarness(fn string) bool {
	return strings.HasPrefix(fn, "main.") || strings.HasPrefix(fn, "gmverif/")
}

// c33ParseRace splits race detector output into reports and finds, for each of the two racing accesses,
// the innermost frame that is gomacro's or the harness's (frames of runtime, reflect, sync ... above it are skipped).
func c33ParseRace(log string) []c33RaceReport {
	var out []c33RaceReport
	for _, blk := range strings.Split(log, "==================") {
		if !strings.Contains(blk, "WARNING: DATA RACE") {
			continue
		}
		rep := c33RaceReport{text: strings.TrimSpace(blk)}
		section := -1 // 0,1 = the two accesses; >=2 = other stacks (goroutine creation, ...)
		for _, line := range strings.Split(blk, "\n") {
			switch {
			case strings.HasPrefix(line, "  "):
				m := c33FuncLine.FindStringSubmatch(line)
				if m == nil {
					continue
				}
				fn := m[1]
				if section >= 0 && section < 2 && rep.frames[section] == "" && (c33IsGomacro(fn) || c33IsHarness(fn)) {
					rep.frames[section] = fn
				}
			case strings.HasSuffix(strings.TrimSpace(line), ":") && !strings.HasPrefix(line, " "):
				section++
			}
		}
		rep.gomacro = c33IsGomacro(rep.frames[0]) || c33IsGomacro(rep.frames[1])
		out = append(out, rep)
	}
	return out
}

// c33CrashInGomacro: the child died of a Go runtime fatal error or an unrecovered panic raised while gomacro code
// was running on the crashing goroutine (its innermost non-runtime frame is gomacro's, not the harness's).
func c33CrashInGomacro(stderr string) bool {
	i := strings.Index(stderr, "fatal error: ")
	if k := strings.Index(stderr, "panic: "); k >= 0 && (i < 0 || k < i) {
		i = k
	}
	if i < 0 {
		return false
	}
	rest := stderr[i:]
	g := strings.Index(rest, "\ngoroutine ")
	if g < 0 {
		return false
	}
	for _, line := range strings.Split(rest[g+1:], "\n")[1:] {
		if line == "" {
			break // end of the crashing goroutine's stack
		}
		if strings.HasPrefix(line, "\t") || strings.HasPrefix(line, "runtime.") || strings.HasPrefix(line, "runtime/") ||
			strings.HasPrefix(line, "panic(") || strings.HasPrefix(line, "reflect.") || strings.HasPrefix(line, "sync") || strings.HasPrefix(line, "created by ") {
			continue
		}
		return c33IsGomacro(line)
	}
	return false
}

func c33RunJob(racebin string, j *c33Job, seed int64, tier, logPrefix string) {
	t0 := time.Now()
	logPath := fmt.Sprintf("%s-%s-%d", logPrefix, j.part, j.procs)
	args := []string{"c33worker", j.part, fmt.Sprint(seed), tier, fmt.Sprint(j.procs)}
	if j.only >= 0 {
		args = append(args, fmt.Sprint(j.only))
	}
	cmd := exec.Command(racebin, args...)
	env := []string{}
	for _, e := range os.Environ() {
		if strings.HasPrefix(e, "GORACE=") || strings.HasPrefix(e, "GOMAXPROCS=") {
			continue
		}
		env = append(env, e)
	}
	env = append(env, "GORACE=halt_on_error=0 exitcode=0 log_path="+logPath, fmt.Sprintf("GOMAXPROCS=%d", j.procs))
	cmd.Env = env
	var stdout, stderr bytes.Buffer
	cmd.Stdout, cmd.Stderr = &stdout, &stderr
	err := cmd.Start()
	stopped := false
	if err == nil {
		// a child that has already produced megabytes of race reports has nothing more to tell: stop it
		// (every report costs the race runtime a lot of time)
		finished := make(chan struct{})
		var mu sync.Mutex
		go func() {
			for {
				select {
				case <-finished:
					return
				case <-time.After(500 * time.Millisecond):
				}
				var size int64
				files, _ := filepath.Glob(logPath + ".*")
				for _, f := range files {
					if st, e := os.Stat(f); e == nil {
						size += st.Size()
					}
				}
				if size > 3<<20 {
					mu.Lock()
					stopped = true
					mu.Unlock()
					cmd.Process.Kill()
					return
				}
			}
		}()
		err = cmd.Wait()
		close(finished)
		mu.Lock()
		j.stopped = stopped
		mu.Unlock()
	}
	j.wall = time.Since(t0).Seconds()
	// race logs: <logPath>.<pid>
	files, _ := filepath.Glob(logPath + ".*")
	for _, f := range files {
		if data, e := os.ReadFile(f); e == nil {
			j.logs += string(data)
		}
		os.Remove(f)
	}
	var res c33Result
	if e := json.Unmarshal(bytes.TrimSpace(stdout.Bytes()), &res); e == nil && res.Part == j.part {
		j.res = &res
	}
	if j.stopped {
		return
	}
	if err != nil || j.res == nil {
		msg := fw.Clip(stderr.String(), 3000)
		if c33CrashInGomacro(stderr.String()) {
			j.fatal = msg
		} else {
			j.err = fmt.Sprintf("child %v failed: %v; stderr: %s; stdout: %s", args, err, msg, fw.Clip(stdout.String(), 300))
		}
	}
}

func checkC33(r *fw.Run) {
	r.SetRule("children built with the race detector, GOMAXPROCS in {1,2,4,16}; (a) waves of short-lived goroutines read gls.GoID >=3 times across Gosched, channel blocking, a syscall and a deep recursion - a case is one goroutine life on one identity; " +
		"(b) waves of 64-512 goroutines run interpreted closures with recursion depth 33-96 (> the 32-frame pool; every level takes a function frame and a block frame), started by interpreted go statements (from the owner, from harness goroutines, nested), by harness goroutines calling an interpreted func value, by compiled code calling back an interpreted closure on long-lived harness goroutines, and directly by the owner, over 3 rounds per interpreter so identities are taken over; a case = (GOMAXPROCS, wave, round, starter kind, depth, identity); " +
		"(d) one interpreter handed over sequentially to a second goroutine that calls Interp.Eval on a statement with block scopes; " +
		"(c) 4-8 clients drive glsGet/glsStore/glsDel/getRun4Goid over 2-3 synthetic identities; a case = one history with >=1 pair of overlapping same-key operations (distinct by event order and outputs). " +
		"Oracle: identity constant per goroutine and never shared by two live goroutines; ownership hook counter == 0; results == sequential expectation; registry record of a goroutine stable while it lives and removed after an interpreted goroutine exits; histories linearizable (porcupine) against a sequential map; zero race-detector reports whose racing access is in gomacro")
	r.Assume("the Go race detector and sync/atomic instrumentation are correct; a race report counts only if one of its two racing accesses has a gomacro frame as the innermost non-runtime frame, reports between harness frames are inconclusive")
	r.Assume("ownership hook fast.VerifSetOwnership/verifCheckOwner (build tag verif) observes every frame taken or released; seeded yields (VerifSetYieldSeed) only add Gosched calls")
	r.Assume("harness goroutines that call interpreted code stay alive until the end of their round: the race detector does not know that the Go scheduler orders a goroutine's exit before the reuse of its g, so take-over of a harness goroutine's stale registry record is exercised only across rounds (ordered by a WaitGroup)")
	r.Assume("interpreters are created one at a time and Interp.Interrupt is not used: races of concurrent interpreter creation (go/types lazymethods) and of Interrupt belong to C10, not to this property")
	r.Assume("stated limit: model checking of the registry protocol is another technique and is not done; the property is decided only on the interleavings observed")
	r.Assume("lookup-or-create (getRun4Goid) is modelled as it is written: a lookup followed, not atomically, by create+register; in the interpreter only the goroutine owning an identity calls it for that identity")

	exe, err := os.Executable()
	if err != nil {
		r.Inconclusive("os.Executable: " + err.Error())
		return
	}
	racebin := filepath.Join(filepath.Dir(exe), "gmverif-race")
	if _, err := os.Stat(racebin); err != nil {
		r.Inconclusive("race-detector build of the harness not found at " + racebin + " (built by /verif/check with go build -race -tags verif)")
		return
	}
	logPrefix := filepath.Join(fw.VerifDir, "work", fmt.Sprintf("c33-race-%d", os.Getpid()))
	defer func() {
		files, _ := filepath.Glob(logPrefix + "*")
		for _, f := range files {
			os.Remove(f)
		}
	}()

	var jobs []*c33Job
	seed, tier := r.Seed, r.Tier
	if p := fw.ReplayArg(); p != "" {
		var rep c33Replay
		if err := fw.LoadReplay(p, &rep); err != nil {
			panic(err)
		}
		r.SetMinDistinct(0)
		if len(rep.History) > 0 {
			v := c33CheckHistory(rep.History, 60*time.Second)
			fmt.Printf("replay: recorded history: %s\nreplay: porcupine verdict against the sequential map model: %s\n", c33HistoryText(rep.History), v)
			r.Eval(1)
			if v == porcupine.Illegal {
				r.Violation("not-linearizable", rep, "recorded registry history is not linearizable: "+c33HistoryText(rep.History))
			}
		}
		fmt.Printf("replay: re-running child part=%s GOMAXPROCS=%d seed=%d tier=%s only=%d (the schedule itself is not reproducible)\n", rep.Part, rep.Procs, rep.Seed, rep.Tier, rep.Only)
		seed, tier = rep.Seed, rep.Tier
		jobs = append(jobs, &c33Job{part: rep.Part, procs: rep.Procs, only: rep.Only})
	} else {
		jobs = append(jobs, &c33Job{part: "d", procs: 4, only: -1})
		for _, procs := range []int{16, 4, 2, 1} {
			for _, part := range []string{"b", "c", "a"} {
				jobs = append(jobs, &c33Job{part: part, procs: procs, only: -1})
			}
		}
	}
	// children run three at a time (oversubscription of the 16 cores by the GOMAXPROCS=16 children is intended: it varies the schedules)
	sem := make(chan struct{}, 3)
	var wg sync.WaitGroup
	for _, j := range jobs {
		wg.Add(1)
		go func(j *c33Job) {
			defer wg.Done()
			sem <- struct{}{}
			c33RunJob(racebin, j, seed, tier, logPrefix)
			<-sem
		}(j)
	}
	wg.Wait()

	seenRace := map[string]bool{}
	samples := map[string]int{}
	walls := map[string]float64{}
	for _, j := range jobs {
		cfg := c33Replay{Part: j.part, Procs: j.procs, Seed: seed, Tier: tier, Only: j.only}
		walls[fmt.Sprintf("%s/%d", j.part, j.procs)] = j.wall
		if j.fatal != "" {
			r.Eval(1)
			cfg.Detail = j.fatal
			r.Violation("crash-in-gomacro", cfg, "child died of a Go runtime error raised while gomacro code was running (harness frames are not on top of the crashing goroutine): "+j.fatal)
			continue
		}
		if j.err != "" {
			r.Inconclusive(j.err)
		}
		if j.stopped {
			r.Count("children_stopped_after_3MB_of_race_reports", 1)
		}
		if res := j.res; res != nil {
			if !res.Race {
				r.Inconclusive("child " + racebin + " was not built with -race")
			}
			r.Eval(int(res.Evals))
			for _, k := range res.Distinct {
				r.Distinct(k)
			}
			for k, v := range res.Counters {
				if k == "a_max_live" {
					if v > r.Counter(k) {
						r.Count(k, v-r.Counter(k))
					}
					continue
				}
				r.Count(k, v)
			}
			for dim, m := range res.Cover {
				for cell, n := range m {
					for i := int64(0); i < n; i++ {
						r.Cover(dim, cell)
					}
				}
			}
			for _, s := range res.Samples {
				if samples[j.part] < 2 {
					samples[j.part]++
					r.Sample(s)
				}
			}
			for _, v := range res.Violations {
				what := fmt.Sprintf("[part %s GOMAXPROCS=%d] %s", j.part, j.procs, v.What)
				if v.Tag == c33FindingEval {
					r.Known(v.Tag, v.Replay, what)
				} else {
					r.Violation(v.Tag, v.Replay, what)
				}
			}
			for _, s := range res.Inconclusive {
				r.Inconclusive(fmt.Sprintf("[part %s GOMAXPROCS=%d] %s", j.part, j.procs, s))
			}
		}
		// the race oracle: one comparison (reports == 0) per child
		r.Eval(1)
		reports := c33ParseRace(j.logs)
		r.Count("race_reports_total", int64(len(reports)))
		r.Cover("gomaxprocs", fmt.Sprint(j.procs))
		for _, rep := range reports {
			fr := []string{rep.frames[0], rep.frames[1]}
			sort.Strings(fr)
			key := fr[0] + " <-> " + fr[1]
			if rep.gomacro {
				r.Count("race_reports_gomacro", 1)
				if seenRace[key] {
					continue
				}
				seenRace[key] = true
				cfg.Detail = fw.Clip(rep.text, 6000)
				r.Violation("data-race", cfg, fmt.Sprintf("[part %s GOMAXPROCS=%d] race detector: %s :: %s", j.part, j.procs, key, fw.Clip(rep.text, 1500)))
			} else {
				r.Count("race_reports_harness_only", 1)
				if !seenRace["h:"+key] {
					seenRace["h:"+key] = true
					r.Inconclusive(fmt.Sprintf("[part %s GOMAXPROCS=%d] race report without a gomacro access (harness problem): %s :: %s", j.part, j.procs, key, fw.Clip(rep.text, 1200)))
				}
			}
		}
	}
	r.Extra("child_wall_s", walls)
	r.Extra("stated_limit", "model checking of the registry protocol is not done; held on the interleavings observed")
	if fw.ReplayArg() != "" {
		return
	}
	// too little observed => inconclusive, never a pass
	floor := func(name string, min int64) {
		if r.Counter(name) < min {
			r.Inconclusive(fmt.Sprintf("observed too little: %s=%d (floor %d)", name, r.Counter(name), min))
		}
	}
	floor("a_goroutines", 10000)
	floor("a_identity_reuses", 1)
	floor("b_goroutines", 64)
	floor("b_identity_reuses", 1)
	floor("b_frames_reused", 1)
	floor("b_yields_injected", 1)
	floor("c_histories_with_overlap", 1)
	floor("d_frames_taken_by_second_goroutine", 1)
}
