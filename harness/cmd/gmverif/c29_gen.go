package main

// C29 — corpus enumeration, composite type specs, expected string forms, case plan.

import (
	"fmt"
	"go/ast"
	"io"
	"net"
	"net/http"
	"os"
	r "reflect"
	"sort"
	"strings"
	"sync"
	"time"
	"unsafe"

	"github.com/cosmos72/gomacro/imports"
	xr "github.com/cosmos72/gomacro/xreflect"

	"gmverif/internal/fw"
)

// c29Spec describes how a type is obtained: from a corpus reflect.Type or with a Universe constructor.
type c29Spec struct {
	Op    string     `json:"op"`             // rt ptr slice array chan map func struct
	Idx   int        `json:"idx,omitempty"`  // op=rt: index in the deterministic corpus
	Str   string     `json:"str,omitempty"`  // op=rt: the type, for the reader
	N     int        `json:"n,omitempty"`    // array length | chan direction | number of func inputs
	Var   bool       `json:"var,omitempty"`  // variadic func
	Args  []*c29Spec `json:"args,omitempty"` // components
	Names []string   `json:"names,omitempty"`
	Tags  []string   `json:"tags,omitempty"`
}

func c29SpecKey(s *c29Spec) string {
	if s.Op == "rt" {
		return fmt.Sprintf("#%d", s.Idx)
	}
	var b strings.Builder
	fmt.Fprintf(&b, "%s%d%v%v%v(", s.Op, s.N, s.Var, s.Names, s.Tags)
	for _, a := range s.Args {
		b.WriteString(c29SpecKey(a))
		b.WriteByte(',')
	}
	b.WriteByte(')')
	return b.String()
}

type c29Corpus struct {
	types []r.Type
	index map[r.Type]int
	specs []*c29Spec
	// recursive[i]: corpus type i reaches (through Elem/Key/Field/In/Out/interface methods) a type that
	// lies on a cycle of such edges, i.e. it involves a recursive type definition. gomacro documents
	// recursive types as approximated ("some corner cases using recursive types may not work correctly").
	recursive []bool
}

func c29Edges(t r.Type) []r.Type {
	var out []r.Type
	switch t.Kind() {
	case r.Array, r.Chan, r.Ptr, r.Slice:
		out = append(out, t.Elem())
	case r.Map:
		out = append(out, t.Key(), t.Elem())
	case r.Struct:
		for i := 0; i < t.NumField(); i++ {
			out = append(out, t.Field(i).Type)
		}
	case r.Func:
		for i := 0; i < t.NumIn(); i++ {
			out = append(out, t.In(i))
		}
		for i := 0; i < t.NumOut(); i++ {
			out = append(out, t.Out(i))
		}
	case r.Interface:
		for i := 0; i < t.NumMethod(); i++ {
			out = append(out, t.Method(i).Type)
		}
	}
	return out
}

// markRecursive: Tarjan SCC over the structural edges, then backward propagation.
func (c *c29Corpus) markRecursive() {
	n := len(c.types)
	adj := make([][]int, n)
	for i, t := range c.types {
		for _, e := range c29Edges(t) {
			if j, ok := c.index[e]; ok {
				adj[i] = append(adj[i], j)
			}
		}
	}
	idx := make([]int, n)
	low := make([]int, n)
	on := make([]bool, n)
	for i := range idx {
		idx[i] = -1
	}
	inCycle := make([]bool, n)
	var stack []int
	counter := 0
	type frame struct{ v, k int }
	for root := 0; root < n; root++ {
		if idx[root] != -1 {
			continue
		}
		work := []frame{{root, 0}}
		idx[root], low[root] = counter, counter
		counter++
		stack = append(stack, root)
		on[root] = true
		for len(work) > 0 {
			f := &work[len(work)-1]
			if f.k < len(adj[f.v]) {
				w := adj[f.v][f.k]
				f.k++
				if idx[w] == -1 {
					idx[w], low[w] = counter, counter
					counter++
					stack = append(stack, w)
					on[w] = true
					work = append(work, frame{w, 0})
				} else if on[w] && idx[w] < low[f.v] {
					low[f.v] = idx[w]
				}
				continue
			}
			v := f.v
			work = work[:len(work)-1]
			if len(work) > 0 {
				if p := work[len(work)-1].v; low[v] < low[p] {
					low[p] = low[v]
				}
			}
			if low[v] == idx[v] {
				var comp []int
				for {
					w := stack[len(stack)-1]
					stack = stack[:len(stack)-1]
					on[w] = false
					comp = append(comp, w)
					if w == v {
						break
					}
				}
				if len(comp) > 1 {
					for _, w := range comp {
						inCycle[w] = true
					}
				} else {
					for _, w := range adj[v] {
						if w == v {
							inCycle[v] = true
						}
					}
				}
			}
		}
	}
	// types that reach a cycle
	radj := make([][]int, n)
	for i, l := range adj {
		for _, j := range l {
			radj[j] = append(radj[j], i)
		}
	}
	c.recursive = make([]bool, n)
	var queue []int
	for i, b := range inCycle {
		if b {
			c.recursive[i] = true
			queue = append(queue, i)
		}
	}
	for len(queue) > 0 {
		v := queue[0]
		queue = queue[1:]
		for _, u := range radj[v] {
			if !c.recursive[u] {
				c.recursive[u] = true
				queue = append(queue, u)
			}
		}
	}
}

// specRecursive: the type described by s involves a recursive corpus type.
func (c *c29Corpus) specRecursive(s *c29Spec) bool {
	if s.Op == "rt" {
		return c.recursive[s.Idx]
	}
	for _, a := range s.Args {
		if c.specRecursive(a) {
			return true
		}
	}
	return false
}

func (c *c29Corpus) spec(i int) *c29Spec { return c.specs[i] }

var c29CoreTypes = []r.Type{
	r.TypeOf(false), r.TypeOf(int(0)), r.TypeOf(uint8(0)), r.TypeOf(int32(0)), r.TypeOf(int64(0)), r.TypeOf(""),
	r.TypeOf(float64(0)), r.TypeOf(complex128(0)), r.TypeOf(uintptr(0)), r.TypeOf(unsafe.Pointer(nil)),
	r.TypeOf((*error)(nil)).Elem(), r.TypeOf((*interface{})(nil)).Elem(),
	r.TypeOf(time.Duration(0)), r.TypeOf(time.Time{}), r.TypeOf((*os.File)(nil)), r.TypeOf((*io.Reader)(nil)).Elem(),
	r.TypeOf(sync.Mutex{}), r.TypeOf(net.IP(nil)), r.TypeOf(http.Header(nil)), r.TypeOf([]byte(nil)),
	r.TypeOf((*fmt.Stringer)(nil)).Elem(), r.TypeOf((*io.ReadWriter)(nil)).Elem(), r.TypeOf(os.FileMode(0)),
	r.TypeOf([4]byte{}), r.TypeOf(map[string][]string(nil)), r.TypeOf(struct{}{}),
}

// compiled types with ambiguous / shadowed / deep promoted fields and methods: the import tables hold
// very few of them, and reflect is an exact oracle for them.
type (
	c29A struct {
		X int
		Y string
		a int8
	}
	c29B struct {
		X int
		Z bool
		a int8
	}
	c29AB struct {
		c29A
		c29B
	} // X, a, M ambiguous at depth 1
	C29Deep struct {
		c29AB
		Y float64
	} // Y shadows c29A.Y; X ambiguous at depth 2
	c29Ptr struct {
		*c29A
		c29B
	} // ambiguity through a pointer
	c29Shadow struct {
		c29AB
		X uint8
	} // X found at depth 0
	c29Mixed struct {
		C29Deep
		*c29Shadow
		W int
	} // X: depth 1 (c29Shadow.X) wins over depth 3
	c29Iface struct {
		fmt.Stringer
		c29A
	} // String ambiguous (interface + struct method)
	c29Only struct{ *c29B } // everything promoted through a pointer
	c29MF   struct {
		c29A
		N int
	} // field N shadows method c29A.N
	c29Cycle struct {
		*c29Cycle
		c29A
	} // self-embedding
)

func (c29A) M() int         { return 1 }
func (c29A) N() int         { return 1 }
func (c29A) String() string { return "" }
func (*c29A) PA()           {}
func (*c29B) M() int        { return 2 }
func (c29B) OnlyB() bool    { return true }
func (C29Deep) Top()        {}
func (c29Shadow) M() int    { return 3 } // shadows both promoted M
func (*c29Mixed) PtrOnly()  {}

var c29LookupTypes = []r.Type{
	r.TypeOf(c29A{}), r.TypeOf(c29B{}), r.TypeOf(c29AB{}), r.TypeOf(C29Deep{}), r.TypeOf(c29Ptr{}), r.TypeOf(c29Shadow{}),
	r.TypeOf(c29Mixed{}), r.TypeOf(c29Iface{}), r.TypeOf(c29Only{}), r.TypeOf(c29MF{}), r.TypeOf(c29Cycle{}),
	r.TypeOf(struct {
		c29AB
		Q int
	}{}),
	r.TypeOf(struct{ *C29Deep }{}),
}

func c29BuildCorpus() *c29Corpus {
	c := &c29Corpus{index: map[r.Type]int{}}
	var visit func(t r.Type)
	visit = func(t r.Type) {
		if t == nil {
			return
		}
		if _, ok := c.index[t]; ok {
			return
		}
		c.index[t] = len(c.types)
		c.types = append(c.types, t)
		switch t.Kind() {
		case r.Array, r.Chan, r.Ptr, r.Slice:
			visit(t.Elem())
		case r.Map:
			visit(t.Key())
			visit(t.Elem())
		case r.Struct:
			for i := 0; i < t.NumField(); i++ {
				visit(t.Field(i).Type)
			}
		case r.Func:
			for i := 0; i < t.NumIn(); i++ {
				visit(t.In(i))
			}
			for i := 0; i < t.NumOut(); i++ {
				visit(t.Out(i))
			}
		}
		for i := 0; i < t.NumMethod(); i++ {
			visit(t.Method(i).Type)
		}
		if t.Kind() != r.Ptr && t.Kind() != r.Interface && t.Name() != "" {
			visit(r.PtrTo(t))
		}
	}
	for _, t := range c29CoreTypes {
		visit(t)
	}
	for _, t := range c29LookupTypes {
		visit(t)
	}
	paths := make([]string, 0, len(imports.Packages))
	for p := range imports.Packages {
		paths = append(paths, p)
	}
	sort.Strings(paths)
	for _, p := range paths {
		pkg := imports.Packages[p]
		names := make([]string, 0, len(pkg.Types))
		for n := range pkg.Types {
			names = append(names, n)
		}
		sort.Strings(names)
		for _, n := range names {
			visit(pkg.Types[n])
		}
		names = names[:0]
		for n := range pkg.Binds {
			names = append(names, n)
		}
		sort.Strings(names)
		for _, n := range names {
			if v := pkg.Binds[n]; v.IsValid() {
				visit(v.Type())
			}
		}
	}
	c.markRecursive()
	c.specs = make([]*c29Spec, len(c.types))
	for i, t := range c.types {
		s := t.String()
		if t.PkgPath() != "" {
			s = t.PkgPath() + "." + t.Name()
		}
		c.specs[i] = &c29Spec{Op: "rt", Idx: i, Str: fw.Clip(s, 200)}
	}
	return c
}

// ---------------------------------------------------------------- expected String() of a reflect.Type
// (go/types notation with full package paths, which is what xreflect.Type.String documents through typeutil.String)

func c29Render(t r.Type) string {
	var b strings.Builder
	c29render(&b, t, nil)
	return b.String()
}

func c29render(b *strings.Builder, t r.Type, stack []r.Type) {
	if t.Name() != "" {
		if t.PkgPath() != "" {
			b.WriteString(t.PkgPath())
			b.WriteByte('.')
		}
		b.WriteString(t.Name())
		return
	}
	for _, s := range stack {
		if s == t {
			b.WriteString("\x00cycle") // unnamed cycle: notation unspecified, caller skips
			return
		}
	}
	stack = append(stack, t)
	switch t.Kind() {
	case r.Array:
		fmt.Fprintf(b, "[%d]", t.Len())
		c29render(b, t.Elem(), stack)
	case r.Slice:
		b.WriteString("[]")
		c29render(b, t.Elem(), stack)
	case r.Ptr:
		b.WriteByte('*')
		c29render(b, t.Elem(), stack)
	case r.Map:
		b.WriteString("map[")
		c29render(b, t.Key(), stack)
		b.WriteByte(']')
		c29render(b, t.Elem(), stack)
	case r.Chan:
		switch t.ChanDir() {
		case r.RecvDir:
			b.WriteString("<-chan ")
			c29render(b, t.Elem(), stack)
		case r.SendDir:
			b.WriteString("chan<- ")
			c29render(b, t.Elem(), stack)
		default:
			b.WriteString("chan ")
			if e := t.Elem(); e.Name() == "" && e.Kind() == r.Chan && e.ChanDir() == r.RecvDir {
				b.WriteByte('(')
				c29render(b, e, stack)
				b.WriteByte(')')
			} else {
				c29render(b, e, stack)
			}
		}
	case r.Func:
		b.WriteString("func")
		c29renderSig(b, t, 0, stack)
	case r.Struct:
		b.WriteString("struct{")
		for i := 0; i < t.NumField(); i++ {
			f := t.Field(i)
			if i > 0 {
				b.WriteString("; ")
			}
			if !f.Anonymous {
				b.WriteString(f.Name)
				b.WriteByte(' ')
			}
			c29render(b, f.Type, stack)
			if f.Tag != "" {
				fmt.Fprintf(b, " %q", string(f.Tag))
			}
		}
		b.WriteByte('}')
	case r.Interface:
		// go/types orders methods by Id: exported name, or pkgpath.name
		type ent struct{ id, s string }
		var ents []ent
		for i := 0; i < t.NumMethod(); i++ {
			m := t.Method(i)
			var mb strings.Builder
			mb.WriteString(m.Name)
			c29renderSig(&mb, m.Type, 0, stack)
			id := m.Name
			if !ast.IsExported(m.Name) {
				id = m.PkgPath + "." + m.Name
			}
			ents = append(ents, ent{id, mb.String()})
		}
		sort.Slice(ents, func(i, j int) bool { return ents[i].id < ents[j].id })
		b.WriteString("interface{")
		for i, e := range ents {
			if i > 0 {
				b.WriteString("; ")
			}
			b.WriteString(e.s)
		}
		b.WriteByte('}')
	default:
		b.WriteString(t.String())
	}
}

func c29renderSig(b *strings.Builder, t r.Type, skip int, stack []r.Type) {
	b.WriteByte('(')
	for i := skip; i < t.NumIn(); i++ {
		if i > skip {
			b.WriteString(", ")
		}
		if t.IsVariadic() && i == t.NumIn()-1 {
			b.WriteString("...")
			c29render(b, t.In(i).Elem(), stack)
		} else {
			c29render(b, t.In(i), stack)
		}
	}
	b.WriteByte(')')
	switch n := t.NumOut(); n {
	case 0:
	case 1:
		b.WriteByte(' ')
		c29render(b, t.Out(0), stack)
	default:
		b.WriteString(" (")
		for i := 0; i < n; i++ {
			if i > 0 {
				b.WriteString(", ")
			}
			c29render(b, t.Out(i), stack)
		}
		b.WriteByte(')')
	}
}

// expected String() of a constructed type, from the constructor arguments alone
func c29RenderSpec(c *c29Corpus, s *c29Spec) string {
	a := func(i int) string { return c29RenderSpec(c, s.Args[i]) }
	switch s.Op {
	case "rt":
		return c29Render(c.types[s.Idx])
	case "ptr":
		return "*" + a(0)
	case "slice":
		return "[]" + a(0)
	case "array":
		return fmt.Sprintf("[%d]%s", s.N, a(0))
	case "chan":
		switch r.ChanDir(s.N) {
		case r.RecvDir:
			return "<-chan " + a(0)
		case r.SendDir:
			return "chan<- " + a(0)
		}
		if e := s.Args[0]; e.Op == "chan" && r.ChanDir(e.N) == r.RecvDir {
			return "chan (" + a(0) + ")"
		} else if e.Op == "rt" {
			if et := c.types[e.Idx]; et.Name() == "" && et.Kind() == r.Chan && et.ChanDir() == r.RecvDir {
				return "chan (" + a(0) + ")"
			}
		}
		return "chan " + a(0)
	case "map":
		return "map[" + a(0) + "]" + a(1)
	case "func":
		var in, out []string
		for i := range s.Args {
			x := a(i)
			if i < s.N {
				if s.Var && i == s.N-1 {
					x = "..." + strings.TrimPrefix(x, "[]")
				}
				in = append(in, x)
			} else {
				out = append(out, x)
			}
		}
		res := "func(" + strings.Join(in, ", ") + ")"
		switch len(out) {
		case 0:
		case 1:
			res += " " + out[0]
		default:
			res += " (" + strings.Join(out, ", ") + ")"
		}
		return res
	case "struct":
		var fs []string
		for i := range s.Args {
			f := a(i)
			if s.Names[i] != "" {
				f = s.Names[i] + " " + f
			}
			if i < len(s.Tags) && s.Tags[i] != "" {
				f += fmt.Sprintf(" %q", s.Tags[i])
			}
			fs = append(fs, f)
		}
		return "struct{" + strings.Join(fs, "; ") + "}"
	}
	return "?"
}

// ---------------------------------------------------------------- plan

type c29Plan struct {
	composites []*c29Spec
	pool       []*c29Spec
	samples    []interface{}
}

func c29MakePlan(run *fw.Run, c *c29Corpus) *c29Plan {
	p := &c29Plan{}
	rng := run.Rng("plan")
	rt := func(t r.Type) *c29Spec { return c.spec(c.index[t]) }

	// base set: fixed core + seeded picks stratified by kind
	var base []*c29Spec
	inBase := map[int]bool{}
	addBase := func(i int) {
		if !inBase[i] {
			inBase[i] = true
			base = append(base, c.spec(i))
		}
	}
	for _, t := range c29CoreTypes {
		addBase(c.index[t])
	}
	byKind := map[r.Kind][]int{}
	for i, t := range c.types {
		byKind[t.Kind()] = append(byKind[t.Kind()], i)
	}
	kinds := make([]int, 0, len(byKind))
	for k := range byKind {
		kinds = append(kinds, int(k))
	}
	sort.Ints(kinds)
	perKind := run.Pick(1, 2)
	for _, k := range kinds {
		l := byKind[r.Kind(k)]
		for j := 0; j < perKind; j++ {
			addBase(l[rng.Intn(len(l))])
		}
	}
	comparable := func(s *c29Spec) bool { return s.Op == "rt" && c.types[s.Idx].Comparable() }
	named := func(s *c29Spec) bool {
		if s.Op != "rt" {
			return false
		}
		t := c.types[s.Idx]
		if t.Name() != "" {
			return true
		}
		return t.Kind() == r.Ptr && t.Elem().Name() != "" && t.Elem().Kind() != r.Interface && t.Elem().Kind() != r.Ptr
	}
	small := base
	if n := run.Pick(7, 9); len(small) > n {
		// a fixed mix for the quadratic/cubic constructors: int, string, error, Duration, *os.File, net.IP, sync.Mutex, + seeded
		small = []*c29Spec{rt(c29CoreTypes[1]), rt(c29CoreTypes[5]), rt(c29CoreTypes[10]), rt(c29CoreTypes[12]),
			rt(c29CoreTypes[14]), rt(c29CoreTypes[17]), rt(c29CoreTypes[16])}
		for len(small) < n {
			small = append(small, base[rng.Intn(len(base))])
		}
	}
	var keys []*c29Spec
	for _, s := range base {
		if comparable(s) && len(keys) < run.Pick(5, 10) {
			keys = append(keys, s)
		}
	}
	var level1 []*c29Spec
	add1 := func(s *c29Spec) { level1 = append(level1, s) }
	unary := func(b *c29Spec, full bool) []*c29Spec {
		out := []*c29Spec{
			{Op: "ptr", Args: []*c29Spec{b}},
			{Op: "slice", Args: []*c29Spec{b}},
			{Op: "array", N: 0, Args: []*c29Spec{b}},
			{Op: "array", N: 3, Args: []*c29Spec{b}},
			{Op: "chan", N: int(r.BothDir), Args: []*c29Spec{b}},
			{Op: "chan", N: int(r.RecvDir), Args: []*c29Spec{b}},
			{Op: "chan", N: int(r.SendDir), Args: []*c29Spec{b}},
			{Op: "map", Args: []*c29Spec{rt(c29CoreTypes[5]), b}},
			{Op: "func", N: 1, Args: []*c29Spec{b, b}},
			{Op: "func", N: 0, Args: []*c29Spec{b}},
			{Op: "struct", Args: []*c29Spec{b}, Names: []string{"A"}},
			{Op: "struct", Args: []*c29Spec{b}, Names: []string{"a"}},
		}
		if full {
			for _, k := range keys {
				out = append(out, &c29Spec{Op: "map", Args: []*c29Spec{k, b}})
			}
			if comparable(b) {
				out = append(out, &c29Spec{Op: "map", Args: []*c29Spec{b, rt(c29CoreTypes[1])}})
			}
			if named(b) {
				out = append(out, &c29Spec{Op: "struct", Args: []*c29Spec{b}, Names: []string{""}})
			}
			out = append(out, &c29Spec{Op: "struct", Args: []*c29Spec{b}, Names: []string{"A"}, Tags: []string{`json:"a"`}})
		}
		return out
	}
	for _, b := range base {
		for _, s := range unary(b, true) {
			add1(s)
		}
	}
	// functions: inputs of length 0..2, outputs of length 0..2, plus variadic forms
	var ins, outs [][]*c29Spec
	ins = append(ins, nil)
	outs = append(outs, nil)
	for _, a := range small {
		ins = append(ins, []*c29Spec{a})
		for _, b := range small {
			ins = append(ins, []*c29Spec{a, b})
		}
	}
	for _, a := range small[:3] {
		outs = append(outs, []*c29Spec{a})
		for _, b := range small[:3] {
			outs = append(outs, []*c29Spec{a, b})
		}
	}
	for _, in := range ins {
		for _, out := range outs {
			args := append(append([]*c29Spec{}, in...), out...)
			add1(&c29Spec{Op: "func", N: len(in), Args: args})
		}
	}
	for _, a := range small {
		for _, b := range small {
			sl := &c29Spec{Op: "slice", Args: []*c29Spec{b}}
			add1(&c29Spec{Op: "func", N: 2, Var: true, Args: []*c29Spec{a, sl}})
			add1(&c29Spec{Op: "func", N: 1, Var: true, Args: []*c29Spec{sl, a}})
		}
	}
	// structs with 2 (thorough: 3) fields; names exported / unexported / embedded
	nameSets2 := [][]string{{"A", "B"}, {"A", "b"}, {"a", "B"}, {"", "B"}, {"A", ""}, {"", ""}}
	for _, a := range small {
		for _, b := range small {
			for _, ns := range nameSets2 {
				if (ns[0] == "" && !named(a)) || (ns[1] == "" && !named(b)) || (ns[0] == "" && ns[1] == "" && c29EmbName(c, a) == c29EmbName(c, b)) {
					continue
				}
				add1(&c29Spec{Op: "struct", Args: []*c29Spec{a, b}, Names: ns})
			}
			add1(&c29Spec{Op: "struct", Args: []*c29Spec{a, b}, Names: []string{"A", "B"}, Tags: []string{"", `x:"y"`}})
			if run.Thorough() {
				for _, d := range small {
					add1(&c29Spec{Op: "struct", Args: []*c29Spec{a, b, d}, Names: []string{"X", "y", "Z"}})
					add1(&c29Spec{Op: "struct", Args: []*c29Spec{a, b, d}, Names: []string{"X", "Y", "Z"}})
				}
			}
		}
	}
	// level 2: unary constructors over level 1 (all of it in thorough, a seeded sample in quick)
	var level2 []*c29Spec
	l1 := level1
	if !run.Thorough() {
		perm := rng.Perm(len(level1))
		n := 400
		if n > len(perm) {
			n = len(perm)
		}
		l1 = nil
		for _, j := range perm[:n] {
			l1 = append(l1, level1[j])
		}
	}
	for _, b := range l1 {
		for _, s := range unary(b, false) {
			level2 = append(level2, s)
		}
	}
	seen := map[string]bool{}
	for _, s := range append(level1, level2...) {
		k := c29SpecKey(s)
		if !seen[k] {
			seen[k] = true
			p.composites = append(p.composites, s)
		}
	}

	// pair pool: stratified corpus sample + reflect-underlying twins of named types + composites
	caps := map[r.Kind]int{r.Interface: 1000, r.Ptr: 70, r.Struct: 70, r.Func: 60, r.Slice: 40, r.Map: 40, r.Array: 25, r.Chan: 30}
	defCap, nComp, nTwins := 8, 120, 40
	if run.Thorough() {
		caps = map[r.Kind]int{r.Interface: 1000, r.Ptr: 220, r.Struct: 220, r.Func: 200, r.Slice: 120, r.Map: 100, r.Array: 63, r.Chan: 30}
		defCap, nComp, nTwins = 20, 420, 150
	}
	inPool := map[string]bool{}
	addPool := func(s *c29Spec) {
		if k := c29SpecKey(s); !inPool[k] {
			inPool[k] = true
			p.pool = append(p.pool, s)
		}
	}
	for _, s := range base {
		addPool(s)
	}
	for _, k := range kinds {
		l := byKind[r.Kind(k)]
		n, ok := caps[r.Kind(k)]
		if !ok {
			n = defCap
		}
		perm := rng.Perm(len(l))
		for j := 0; j < n && j < len(perm); j++ {
			addPool(c.spec(l[perm[j]]))
		}
	}
	// twins: the unnamed underlying type of a named type, made with reflect only (not with xreflect)
	var namedIdx []int
	for i, t := range c.types {
		if t.Name() != "" && t.PkgPath() != "" && t.Kind() != r.Interface {
			namedIdx = append(namedIdx, i)
		}
	}
	perm := rng.Perm(len(namedIdx))
	for j := 0; j < len(perm) && nTwins > 0; j++ {
		i := namedIdx[perm[j]]
		u := c29Underlying(c.types[i])
		if u == nil {
			continue
		}
		if ui, ok := c.index[u]; ok {
			addPool(c.spec(i))
			addPool(c.spec(ui))
			if pi, ok := c.index[r.PtrTo(c.types[i])]; ok {
				addPool(c.spec(pi))
			}
			nTwins--
		}
	}
	// composites: channels of every direction, pointers, structs differing in tags... (exact ones only)
	var exact []*c29Spec
	for _, s := range p.composites {
		if c29SpecExact(s) {
			exact = append(exact, s)
		}
	}
	perm = rng.Perm(len(exact))
	for j := 0; j < nComp && j < len(perm); j++ {
		addPool(exact[perm[j]])
	}
	for i := 0; i < 3 && i < len(p.composites); i++ {
		s := p.composites[rng.Intn(len(p.composites))]
		p.samples = append(p.samples, map[string]interface{}{"composite": c29RenderSpec(c, s), "spec": s})
	}
	for i := 0; i < 3; i++ {
		a, b := p.pool[rng.Intn(len(p.pool))], p.pool[rng.Intn(len(p.pool))]
		p.samples = append(p.samples, map[string]interface{}{"pair": []string{c29RenderSpec(c, a), c29RenderSpec(c, b)}})
	}
	return p
}

func c29SpecExact(s *c29Spec) bool {
	if s.Op == "struct" {
		for _, n := range s.Names {
			if n == "" || !ast.IsExported(n) {
				return false
			}
		}
	}
	for _, a := range s.Args {
		if !c29SpecExact(a) {
			return false
		}
	}
	return true
}

func c29EmbName(c *c29Corpus, s *c29Spec) string {
	t := c.types[s.Idx]
	if t.Name() == "" && t.Kind() == r.Ptr {
		t = t.Elem()
	}
	return t.Name()
}

// c29Underlying returns the unnamed underlying type of a named compiled type when it can be named
// with reflect alone (nil otherwise).
func c29Underlying(t r.Type) (u r.Type) {
	defer func() {
		if recover() != nil {
			u = nil
		}
	}()
	switch t.Kind() {
	case r.Struct, r.Interface:
		return nil // reflect.StructOf cannot express unexported fields in general; no InterfaceOf
	}
	u = xr.ReflectUnderlying(t)
	if u == t || u.Name() != "" && u.PkgPath() != "" {
		return nil
	}
	return u
}
