package main

// C03 — conversions between basic, string and byte/rune slice types.

import (
	"fmt"
	"math"
	"math/rand"
	"strconv"
	"strings"

	"gmverif/internal/fw"
)

func init() { register("C03", "exploration", checkC03) }

// intRange returns the float64 bounds inside which a float->integer conversion is defined for sure.
func c03InRange(lit string, dst *kindInfo) bool {
	f, err := strconv.ParseFloat(lit, 64)
	if err != nil {
		return false
	}
	if f != f || math.IsInf(f, 0) {
		return false
	}
	f = math.Trunc(f)
	switch dst.Class {
	case "int":
		lim := math.Ldexp(1, dst.Bits-1)
		return f > -lim && f < lim-1024 // keep clear of the upper edge (float rounding)
	case "uint":
		lim := math.Ldexp(1, dst.Bits)
		return f >= 0 && f < lim-2048
	}
	return true
}

func c03Pair(id int, sname, dname string, sk, dk *kindInfo, decls string, rng *rand.Rand, nrand int) *Prog {
	var src strings.Builder
	src.WriteString("func §rc(tag int) { if r := recover(); r != nil { rec(-tag, pcl(r)) } }\n")
	src.WriteString(decls)
	fmt.Fprintf(&src, "var §g %s\n", sname)
	fmt.Fprintf(&src, "func §v1(a %s) { defer §rc(1); rec(1, %s(a)) }\n", sname, dname)
	fmt.Fprintf(&src, "func §v2(a %s) { defer §rc(2); x := a; func() { rec(2, %s(x)) }() }\n", sname, dname)
	fmt.Fprintf(&src, "func §v3(a %s) { defer §rc(3); §g = a; var d %s = %s(§g); rec(3, d) }\n", sname, dname, dname)
	// constants: each in its own function, filtered by go/types (constant overflow / truncation is rejected by Go)
	tag := 10
	var constCalls []string
	for _, c := range append(append([]string{}, sk.Consts...), sk.randConsts(rng, nrand)...) {
		tag++
		fn := fmt.Sprintf("func §c%d() { defer §rc(%d); rec(%d, %s(%s(%s))) }\n", tag, tag, tag, dname, sname, c)
		if !fragValid(decls + fn) {
			continue
		}
		src.WriteString(fn)
		constCalls = append(constCalls, fmt.Sprintf("§c%d()", tag))
		// untyped constant operand
		tag++
		fn = fmt.Sprintf("func §c%d() { defer §rc(%d); rec(%d, %s(%s)) }\n", tag, tag, tag, dname, c)
		if fragValid(decls + fn) {
			src.WriteString(fn)
			constCalls = append(constCalls, fmt.Sprintf("§c%d()", tag))
		}
	}
	ops := sk.varOperands(rng, nrand)
	var keep []string
	for _, o := range ops {
		if sk.Class == "float" && dk.isInteger() {
			if strings.ContainsAny(o, "zo") || !c03InRange(o, dk) {
				continue // NaN, Inf, out of range: implementation-defined in Go
			}
		}
		keep = append(keep, o)
	}
	src.WriteString("func §P() {\n")
	switch sk.Class {
	case "bool":
		fmt.Fprintf(&src, "var z, o %s = false, true\n", sname)
	case "string":
		fmt.Fprintf(&src, "var z, o %s = \"\", \"1\"\n", sname)
	default:
		fmt.Fprintf(&src, "var z, o %s = 0, 1\n", sname)
	}
	src.WriteString("_ = z\n_ = o\n")
	fmt.Fprintf(&src, "for _, a := range []%s{%s} {\n§v1(a)\n§v2(a)\n§v3(a)\n}\n", sname, strings.Join(keep, ", "))
	src.WriteString(strings.Join(constCalls, "\n"))
	src.WriteString("\n}\n")
	return &Prog{ID: fmt.Sprintf("c03-%d", id), Src: src.String(), Cell: sname + "->" + dname}
}

func c03Strings(id int, variant int, rng *rand.Rand) *Prog {
	strs := []string{`""`, `"a"`, `"héllo, 世界"`, `"\xff\xfe"`, `"a\xc3"`, `"\xed\xa0\x80"`, `"\x00"`, `"\U0010FFFF"`, `"\xf4\x90\x80\x80"`, `"abc\xe2\x82"`, `"🙂x"`}
	for i := 0; i < 4; i++ {
		n := rng.Intn(8)
		b := make([]byte, n)
		for j := range b {
			b[j] = byte(rng.Intn(256))
		}
		strs = append(strs, strconv.Quote(string(b)))
	}
	runes := []string{"0", "65", "0x10FFFF", "0x110000", "-1", "0xD800", "0xDFFF", "0xFFFD", "233", "0x4e16", "2147483647", "-2147483648"}
	var src strings.Builder
	src.WriteString("func §rc(tag int) { if r := recover(); r != nil { rec(-tag, pcl(r)) } }\n")
	src.WriteString("type §S string\ntype §BS []byte\ntype §RS []rune\ntype §B byte\ntype §R rune\ntype §MB []§B\ntype §MR []§R\n")
	src.WriteString("func §P() {\n")
	switch variant {
	case 0: // string <-> []byte / []rune
		fmt.Fprintf(&src, "for _, s := range []string{%s} {\n", strings.Join(strs, ", "))
		src.WriteString("bs := []byte(s)\nrs := []rune(s)\nrec(1, nc(bs), nc(rs))\nrec(2, string(bs), string(rs))\n")
		src.WriteString("rec(3, nc(§BS(s)), nc(§RS(s)), §S(s), string(§S(s)))\nrec(4, nc([]byte(§S(s))), nc([]rune(§S(s))), §S(bs), §S(rs), string(§BS(s)), string(§RS(s)))\n")
		src.WriteString("if len(bs) > 0 { bs[0] = 'Z'; rec(5, s, string(bs)) }\n")
		src.WriteString("func() { t := s; func() { rec(7, nc([]byte(t)), nc([]rune(t))) }() }()\n")
		src.WriteString("}\n")
		src.WriteString("var nb []byte\nvar nr []rune\nrec(8, string(nb), string(nr), nc([]byte(\"\")), nc([]rune(\"\")))\n")
	case 1: // integer -> string
		for ki, k := range []string{"int", "int32", "rune", "int64", "uint32", "byte", "uint16", "uint64", "int8", "§R", "§B"} {
			var vals []string
			for _, v := range runes {
				if fitsKindName(v, k) {
					vals = append(vals, v)
				}
			}
			fmt.Fprintf(&src, "for _, i := range []%s{%s} {\nrec(%d, string(i), §S(i))\n}\n", k, strings.Join(vals, ", "), 10+ki)
		}
		src.WriteString("rec(30, string(rune(65)), string(rune(0x10FFFF)), string(rune(-1)), string(byte(200)))\n")
	case 2: // constant forms
		for i, s := range strs {
			fn := fmt.Sprintf("rec(%d, nc([]byte(%s)), nc([]rune(%s)), §S(%s), nc(§BS(%s)))\n", 40+i, s, s, s, s)
			src.WriteString(fn)
		}
		src.WriteString("const cs = \"héllo\"\nrec(60, nc([]byte(cs)), nc([]rune(cs)), len([]rune(cs)))\n")
	}
	src.WriteString("}\n")
	return &Prog{ID: fmt.Sprintf("c03-s%d", id), Src: src.String(), Cell: fmt.Sprintf("strings/%d", variant)}
}

func fitsKindName(lit, k string) bool {
	return fragValid(fmt.Sprintf("type R rune\ntype B byte\nvar _ %s = %s\n", strings.ReplaceAll(k, "§", ""), lit))
}

func checkC03(r *fw.Run) {
	r.SetRule("one program per ordered pair (source type, target type) over the 17 basic kinds and named variants of each class; valid pairs convert boundary + random operands as parameter, captured variable, global, typed constant and untyped constant (constant functions Go rejects are filtered by go/types; float->integer operands only when in range); pairs go/types rejects form the must-be-rejected set: the interpreter must fail to compile them with zero trace events; plus string<->[]byte/[]rune (invalid UTF-8, surrogates, named slice types) and integer->string programs; oracle = trace equality with compiled Go; distinct = distinct program texts")
	r.Assume("go/types + cmd/compile 1.23.5 (language go1.18) are the reference semantics; out-of-range float->integer conversions are excluded (implementation-defined)")
	o := e1Opts{CheckReject: true}
	if p := fw.ReplayArg(); p != "" {
		e1ReplayFile(r, p, o)
		return
	}
	rng := r.Rng("pairs")
	var progs []*Prog
	id := 0
	nrand := r.Pick(2, 8)
	type tinfo struct {
		name  string
		k     *kindInfo
		decls string
	}
	var ts []tinfo
	for i := range allKinds {
		ts = append(ts, tinfo{allKinds[i].Name, &allKinds[i], ""})
	}
	named := []tinfo{
		{"§MyBool", kindByName["bool"], "type §MyBool bool\n"}, {"§MyI8", kindByName["int8"], "type §MyI8 int8\n"},
		{"§MyInt", kindByName["int"], "type §MyInt int\n"}, {"§MyU16", kindByName["uint16"], "type §MyU16 uint16\n"},
		{"§MyU64", kindByName["uint64"], "type §MyU64 uint64\n"}, {"§MyF32", kindByName["float32"], "type §MyF32 float32\n"},
		{"§MyF64", kindByName["float64"], "type §MyF64 float64\n"}, {"§MyC128", kindByName["complex128"], "type §MyC128 complex128\n"},
		{"§MyStr", kindByName["string"], "type §MyStr string\n"}, {"§MyI8b", kindByName["int8"], "type §MyI8b int8\n"},
	}
	quick := !r.Thorough()
	for _, s := range ts {
		for _, d := range ts {
			id++
			progs = append(progs, c03Pair(id, s.name, d.name, s.k, d.k, "", rng, nrand))
		}
	}
	for ni, n := range named {
		for ti, t := range ts {
			if quick && (ni+ti+int(r.Seed))%3 != 0 && t.k.Class != n.k.Class {
				continue
			}
			id++
			progs = append(progs, c03Pair(id, n.name, t.name, n.k, t.k, n.decls, rng, nrand))
			id++
			progs = append(progs, c03Pair(id, t.name, n.name, t.k, n.k, n.decls, rng, nrand))
		}
		for _, m := range named {
			if m.name == n.name {
				continue
			}
			id++
			progs = append(progs, c03Pair(id, n.name, m.name, n.k, m.k, n.decls+m.decls, rng, nrand))
		}
	}
	for v := 0; v < 3; v++ {
		for j := 0; j < r.Pick(2, 20); j++ {
			id++
			progs = append(progs, c03Strings(id, v, rng))
		}
	}
	// invalid string/slice conversions (must be rejected)
	for i, bad := range []string{
		"var f float64 = 65; rec(1, string(f))", "var b bool; rec(1, string(b))", "var s string = \"1\"; rec(1, int(s))",
		"var s []int; rec(1, string(s))", "var s string; rec(1, []int(s))", "var c complex128; rec(1, float64(c))",
		"var s []int16; rec(1, string(s))", "var s string; rec(1, []uint16(s))", "var p *int; rec(1, int(p))",
		"var a [2]byte; rec(1, string(a))", "rec(1, string(1.5))", "rec(1, bool(1))", "rec(1, int(\"a\"))",
	} {
		id++
		progs = append(progs, &Prog{ID: fmt.Sprintf("c03-bad%d", i), Src: "func §P() {\n" + bad + "\n}\n", Cell: "invalid/" + bad})
	}
	r.Extra("programs", len(progs))
	e1Run(r, progs, o)
}
