package main

// C39 — preprocessor mode (`gomacro -m -w file`) writes the collected declarations as equivalent,
// compilable Go. E1-style differential check against the Go toolchain: the written file must build,
// print the same trace as the source compiled directly, and have the same imports and declarations.

import (
	"bufio"
	"bytes"
	"context"
	"encoding/json"
	"fmt"
	"go/ast"
	"go/parser"
	"go/token"
	"os"
	"os/exec"
	"path/filepath"
	"reflect"
	"regexp"
	"runtime"
	"sort"
	"strings"
	"sync"
	"time"

	"gmverif/internal/fw"
)

func init() {
	register("C39", "exploration", checkC39)
	auxCmds["c39gen"] = func(args []string) {
		// debugging aid: gmverif c39gen <seed> <n> : print the n-th source of a seed
		var n int
		fmt.Sscan(args[1], &n)
		os.Setenv("VERIF_SEED", args[0])
		r := fw.NewRun("C39", "exploration")
		f := c39Generate(n, r.Rng(fmt.Sprintf("file-%d", n)))
		fmt.Println(f.Src)
		fmt.Println("// features:", f.Feats)
	}
}

const c39Rule = "each case is one whole-file program (package clause; imports as one group, single declarations or a mix, with renamed, dot and blank imports; " +
	"declarations; func main printing a trace with fmt.Println under a deferred recover), assembled by a seeded generator from (a) a random program of the C38 generator " +
	"(functions, closures, control flow, slices/maps/structs, defer/recover; its `planted' shapes are ordinary valid Go here) and (b) 2-8 declaration-level snippets with randomised constants " +
	"covering methods and embedding, struct tags, interfaces and type switches, grouped const declarations with iota (typed, skipped, multi-name, implicit repetition), grouped var and type declarations, aliases, arrays, " +
	"composite literals with elided types, labels/goto/labelled break and continue, channels/select/go, literals of every lexical form, parenthesised and precedence-sensitive expressions, all statement forms, init functions; " +
	"30% of the files also define 1-3 gomacro macros (`:macro' chunks, evaluated but not written) and use them in main. " +
	"Every file goes through the real command-line path cmd.New().Main([\"-m\",\"-w\",file]) in a child process. Oracle per file: (1) the written .go file parses and its package clause, import list and declaration list equal the source's " +
	"(go/ast, positions and comments ignored, both sides canonicalised as base.UnwrapTrivialAst does: parentheses dropped, one-statement blocks that declare nothing unwrapped) - for macro files the expected declarations are those of an " +
	"independent interpreter applying Comp.Parse (parser + MacroExpandCodewalk) to the non-macro text; (2) the written file builds (module go 1.18, offline) whenever the reference does; " +
	"(3) its run prints exactly what the reference prints (source compiled directly; for macro files the generator's own hand-written expansion). To amortise link cost both texts of a file are built as packages " +
	"(package clause renamed, func main -> func Main) linked into one driver binary per side and batch of 200 files; the first 20 (thorough: 100) files are also built and run unmodified as package main, comparing output and exit code. distinct = distinct source texts"

type c39Replay struct {
	File    *c39File   `json:"file"`
	Result  *c39Result `json:"worker_result"`
	Build   string     `json:"build_error,omitempty"`
	WantOut string     `json:"reference_output,omitempty"`
	GotOut  string     `json:"written_output,omitempty"`
}

var c39BuildErrRe = regexp.MustCompile(`(?m)^(?:\./)?((?:real_)?[ow]_p\d+)/main\.go:(\d+):(\d+): (.*)$`)

func c39RunWorkers(files []*c39File, base string) map[string]*c39Result {
	nw := runtime.NumCPU()
	if nw > len(files) {
		nw = len(files)
	}
	results := map[string]*c39Result{}
	var mu sync.Mutex
	var wg sync.WaitGroup
	for w := 0; w < nw; w++ {
		var shard []*c39File
		for i := w; i < len(files); i += nw {
			shard = append(shard, files[i])
		}
		wg.Add(1)
		go func(shard []*c39File) {
			defer wg.Done()
			for len(shard) > 0 {
				done, died := c39RunShard(shard, base)
				mu.Lock()
				for _, r := range done {
					results[r.ID] = r
				}
				mu.Unlock()
				consumed := len(done)
				if consumed < len(shard) {
					// the worker died while processing shard[consumed]
					mu.Lock()
					results[shard[consumed].ID] = &c39Result{ID: shard[consumed].ID, MainErr: "worker process died: " + died}
					mu.Unlock()
					consumed++
				}
				shard = shard[consumed:]
			}
		}(shard)
	}
	wg.Wait()
	return results
}

func c39RunShard(shard []*c39File, base string) (done []*c39Result, died string) {
	cmd := exec.Command(selfBin(), "c39worker")
	stdin, _ := cmd.StdinPipe()
	stdout, _ := cmd.StdoutPipe()
	var stderr bytes.Buffer
	cmd.Stderr = &stderr
	if err := cmd.Start(); err != nil {
		return nil, err.Error()
	}
	go func() {
		w := bufio.NewWriter(stdin)
		enc := json.NewEncoder(w)
		for _, f := range shard {
			enc.Encode(&c39Job{Dir: filepath.Join(base, "in", f.ID), File: f})
		}
		w.Flush()
		stdin.Close()
	}()
	timer := time.AfterFunc(time.Duration(len(shard))*30*time.Second+2*time.Minute, func() { cmd.Process.Kill() })
	defer timer.Stop()
	sc := bufio.NewScanner(stdout)
	sc.Buffer(make([]byte, 1<<20), 1<<28)
	for sc.Scan() {
		line := sc.Bytes()
		if !bytes.HasPrefix(line, []byte("{")) {
			continue
		}
		var res c39Result
		if json.Unmarshal(line, &res) == nil {
			r := res
			done = append(done, &r)
		}
	}
	err := cmd.Wait()
	return done, fmt.Sprintf("%v: %s", err, fw.Clip(stderr.String(), 2000))
}

// c39AsPackage turns a `package main' file into an importable package: the package clause is renamed and
// func main becomes func Main. ok = false if the text does not have exactly that shape.
func c39AsPackage(src, pkg string) (string, bool) {
	const clause, mainFn = "\npackage main\n", "\nfunc main() {"
	if strings.Count("\n"+src, clause) != 1 || strings.Count(src, mainFn) != 1 {
		return "", false
	}
	out := strings.Replace("\n"+src, clause, "\npackage "+pkg+"\n", 1)[1:]
	return strings.Replace(out, mainFn, "\nfunc Main() {", 1), true
}

const c39Marker = "=== C39 program "

func c39Driver(side string, ids []string) string {
	var b strings.Builder
	b.WriteString("package main\n\nimport (\n\t\"fmt\"\n\t\"os\"\n\t\"strconv\"\n")
	for i, id := range ids {
		fmt.Fprintf(&b, "\tq%d \"c39m/%s_%s\"\n", i, side, id)
	}
	b.WriteString(")\n\nvar table = []struct {\n\tid string\n\tf  func()\n}{\n")
	for i, id := range ids {
		fmt.Fprintf(&b, "\t{%q, q%d.Main},\n", id, i)
	}
	b.WriteString("}\n\nfunc main() {\n\tstart := 0\n\tif len(os.Args) > 1 {\n\t\tstart, _ = strconv.Atoi(os.Args[1])\n\t}\n")
	b.WriteString("\tfor _, e := range table[start:] {\n\t\tfmt.Println(\"" + c39Marker + "\" + e.id)\n\t\te.f()\n\t}\n\tfmt.Println(\"" + c39Marker + "END\")\n}\n")
	return b.String()
}

// c39Build builds, in one module: every reference (o_<id>) and written (w_<id>) program as a package with a driver
// binary per side, and the first `real' files additionally as the unmodified main packages real_o_<id> / real_w_<id>.
// It returns the build error text per failed package and the ids linked into each driver.
func c39Build(dir string, files []*c39File, results map[string]*c39Result, real int) (failed map[string]string, linked map[string][]string, err error) {
	failed = map[string]string{}
	os.MkdirAll(filepath.Join(dir, "bin"), 0o755)
	os.WriteFile(filepath.Join(dir, "go.mod"), []byte("module c39m\n\ngo 1.18\n"), 0o644)
	write := func(pkg, text string) {
		os.MkdirAll(filepath.Join(dir, pkg), 0o755)
		os.WriteFile(filepath.Join(dir, pkg, "main.go"), []byte(text), 0o644)
	}
	have := map[string]bool{}
	for i, f := range files {
		r := results[f.ID]
		if text, ok := c39AsPackage(f.Ref, "o_"+f.ID); ok {
			write("o_"+f.ID, text)
			have["o_"+f.ID] = true
		} else {
			failed["o_"+f.ID] = "the reference text has no `package main' / `func main() {' to rename"
		}
		if r != nil && r.Written {
			if text, ok := c39AsPackage(r.Out, "w_"+f.ID); ok {
				write("w_"+f.ID, text)
				have["w_"+f.ID] = true
			} else {
				failed["w_"+f.ID] = "the written file does not contain exactly one `package main' clause and one `func main() {'"
			}
		}
		if i < real {
			write("real_o_"+f.ID, f.Ref)
			if r != nil && r.Written {
				write("real_w_"+f.ID, r.Out)
			}
		}
	}
	for attempt := 0; attempt < 10; attempt++ {
		linked = map[string][]string{}
		for _, side := range []string{"o", "w"} {
			for _, f := range files {
				if have[side+"_"+f.ID] && failed[side+"_"+f.ID] == "" && failed["o_"+f.ID] == "" {
					linked[side] = append(linked[side], f.ID)
				}
			}
			write("drv_"+side, c39Driver(side, linked[side]))
		}
		cmd := exec.Command("go", "build", "-o", "bin/", "./...")
		cmd.Dir = dir
		cmd.Env = goEnv
		out, berr := cmd.CombinedOutput()
		if berr == nil {
			return failed, linked, nil
		}
		n := 0
		for _, m := range c39BuildErrRe.FindAllStringSubmatch(string(out), -1) {
			if _, seen := failed[m[1]]; !seen {
				n++
			}
			if len(failed[m[1]]) < 600 {
				failed[m[1]] += m[0] + "\n"
			}
		}
		if n == 0 {
			return failed, linked, fmt.Errorf("go build failed, no package identified: %s", fw.Clip(string(out), 1500))
		}
		for pkg := range failed {
			os.RemoveAll(filepath.Join(dir, pkg))
		}
	}
	return failed, linked, fmt.Errorf("go build keeps failing")
}

// c39RunDriver runs a driver binary and splits its output by program; a program that kills the process
// (fatal error, os.Exit) is reported with err set and the driver is restarted after it.
func c39RunDriver(dir, side string, ids []string) map[string]c39RunOut {
	res := map[string]c39RunOut{}
	start := 0
	for start < len(ids) {
		ctx, cancel := context.WithTimeout(context.Background(), 10*time.Minute)
		cmd := exec.CommandContext(ctx, filepath.Join(dir, "bin", "drv_"+side), fmt.Sprint(start))
		var stdout, stderr bytes.Buffer
		cmd.Stdout = &stdout
		cmd.Stderr = &stderr
		err := cmd.Run()
		timedOut := ctx.Err() != nil
		cancel()
		parts := strings.Split(stdout.String(), c39Marker)
		complete := 0
		for k := 1; k < len(parts); k++ {
			nl := strings.IndexByte(parts[k], '\n')
			if nl < 0 {
				break
			}
			id, body := parts[k][:nl], parts[k][nl+1:]
			if id == "END" {
				break
			}
			if k+1 < len(parts) {
				res[id] = c39RunOut{out: body}
				complete++
			} else {
				// the process ended inside this program
				ro := c39RunOut{out: body, exit: -1, err: "driver process ended inside this program: " + fw.Clip(stderr.String(), 300)}
				if timedOut {
					ro.err = "timeout"
				}
				res[id] = ro
				complete++
			}
		}
		if err == nil && !timedOut {
			break
		}
		if complete == 0 {
			break
		}
		start += complete
	}
	return res
}

type c39RunOut struct {
	out  string
	exit int
	err  string
}

func c39RunBins(dir string, names []string) map[string]c39RunOut {
	res := map[string]c39RunOut{}
	var mu sync.Mutex
	var wg sync.WaitGroup
	sem := make(chan struct{}, runtime.NumCPU())
	for _, name := range names {
		name := name
		wg.Add(1)
		sem <- struct{}{}
		go func() {
			defer wg.Done()
			defer func() { <-sem }()
			ctx, cancel := context.WithTimeout(context.Background(), 60*time.Second)
			defer cancel()
			cmd := exec.CommandContext(ctx, filepath.Join(dir, "bin", name))
			var stdout, stderr bytes.Buffer
			cmd.Stdout = &stdout
			cmd.Stderr = &stderr
			err := cmd.Run()
			ro := c39RunOut{out: stdout.String()}
			if err != nil {
				if ee, ok := err.(*exec.ExitError); ok {
					ro.exit = ee.ExitCode()
				} else {
					ro.exit = -1
				}
				ro.err = err.Error()
				if ctx.Err() != nil {
					ro.err = "timeout"
				}
			}
			mu.Lock()
			res[name] = ro
			mu.Unlock()
		}()
	}
	wg.Wait()
	return res
}

func c39NodeKinds(src string, into map[string]bool) {
	fset := token.NewFileSet()
	f, err := parser.ParseFile(fset, "x.go", src, parser.SkipObjectResolution)
	if err != nil {
		return
	}
	ast.Inspect(f, func(n ast.Node) bool {
		if n != nil {
			into[strings.TrimPrefix(reflect.TypeOf(n).String(), "*ast.")] = true
		}
		return true
	})
}

func c39Process(r *fw.Run, files []*c39File, base string, verbose bool, realMains int) {
	timing := map[string]float64{}
	t0 := time.Now()
	results := c39RunWorkers(files, base)
	timing["gomacro_workers"] = time.Since(t0).Seconds()
	defer func() { r.Extra("timing_s", timing) }()
	const batch = 200
	for lo := 0; lo < len(files); lo += batch {
		hi := lo + batch
		if hi > len(files) {
			hi = len(files)
		}
		part := files[lo:hi]
		dir := filepath.Join(base, fmt.Sprintf("mod%d", lo/batch))
		real := 0
		if lo == 0 {
			real = realMains
		}
		t1 := time.Now()
		failed, linked, berr := c39Build(dir, part, results, real)
		timing["go_build"] += time.Since(t1).Seconds()
		t2 := time.Now()
		if berr != nil {
			r.Inconclusive("toolchain build unavailable: " + berr.Error())
			return
		}
		runs := map[string]c39RunOut{}
		var wg sync.WaitGroup
		var mu sync.Mutex
		for _, side := range []string{"o", "w"} {
			side := side
			wg.Add(1)
			go func() {
				defer wg.Done()
				out := c39RunDriver(dir, side, linked[side])
				mu.Lock()
				for id, ro := range out {
					runs[side+"_"+id] = ro
				}
				mu.Unlock()
			}()
		}
		wg.Wait()
		var names []string
		for i, f := range part {
			if i < real && failed["real_o_"+f.ID] == "" && failed["real_w_"+f.ID] == "" && results[f.ID] != nil && results[f.ID].Written {
				names = append(names, "real_o_"+f.ID, "real_w_"+f.ID)
			}
		}
		for name, ro := range c39RunBins(dir, names) {
			runs[name] = ro
		}
		timing["run_programs"] += time.Since(t2).Seconds()
		for _, f := range part {
			res := results[f.ID]
			if res == nil {
				r.Count("worker_result_missing", 1)
				continue
			}
			rep := c39Replay{File: f, Result: res}
			cell := "plain"
			if len(f.Macros) > 0 {
				cell = "macros"
			}
			if res.ExpectErr != "" {
				// the harness could not establish the expectation: not a verdict
				r.Count("expectation_unavailable", 1)
				r.Extra("expectation_unavailable_example", f.ID+": "+fw.Clip(res.ExpectErr, 300))
				continue
			}
			if e := failed["o_"+f.ID]; e != "" {
				r.Count("reference_does_not_build", 1)
				r.Extra("reference_build_error_example", fw.Clip(e, 400))
				continue
			}
			r.Distinct(f.Src)
			for _, ft := range f.Feats {
				r.Cover("features", ft)
			}
			r.Cover("cells", cell)
			kinds := map[string]bool{}
			c39NodeKinds(f.Ref, kinds)
			for k := range kinds {
				r.Cover("node_kinds", k)
			}
			r.Count("declarations_compared", int64(res.Decls))
			// (0) the command itself
			r.Eval(1)
			if res.MainErr != "" || !res.Written {
				r.Violation(cell+"/not-written", rep, fmt.Sprintf("%s: gomacro -m -w did not write the file: %s %s", f.ID, res.MainErr, fw.Clip(res.Output, 400)))
				continue
			}
			// (1) structure
			r.Eval(1)
			if res.ParseErr != "" || res.StructDiff != "" {
				// finding C39-paren-unwrap: the macroexpansion phase drops every ParenExpr and the printer re-inserts only
				// those that operator precedence requires; recognised by the input shape AND the specific failure
				if res.Exposed && res.ParseErr != "" {
					r.Known("C39-paren-unwrap", rep, fmt.Sprintf("%s: `if (T{..} == x) {' was written without the parentheses; the written file does not parse: %s", f.ID, res.ParseErr))
				} else if res.RecvChan && (strings.HasSuffix(res.StructDiff, ".Dir: 3 vs 1") || strings.HasSuffix(res.StructDiff, "*ast.CallExpr vs *ast.UnaryExpr")) {
					r.Known("C39-paren-unwrap", rep, fmt.Sprintf("%s: the parentheses around a receive-only channel type were dropped: %s", f.ID, res.StructDiff))
				} else {
					r.Violation(cell+"/structure", rep, fmt.Sprintf("%s: %s%s (gomacro printed: %s)", f.ID, res.ParseErr, res.StructDiff, fw.Clip(res.Output, 300)))
				}
				continue
			}
			// (2) build
			r.Eval(1)
			if e := failed["w_"+f.ID] + failed["real_w_"+f.ID]; e != "" && failed["real_o_"+f.ID] == "" {
				rep.Build = e
				r.Violation(cell+"/build", rep, fmt.Sprintf("%s: the written file does not compile: %s", f.ID, fw.Clip(e, 400)))
				continue
			}
			// (3) behaviour
			want, got := runs["o_"+f.ID], runs["w_"+f.ID]
			if rw, ok := runs["real_o_"+f.ID]; ok {
				// the unmodified `package main' files, built and run on their own
				rg := runs["real_w_"+f.ID]
				r.Count("built_as_real_main", 1)
				if rw.err != "timeout" && rg.err != "timeout" {
					r.Eval(1)
					if rw.out != rg.out || rw.exit != rg.exit {
						rep.WantOut, rep.GotOut = fw.Clip(rw.out, 4000), fw.Clip(rg.out, 4000)
						r.Violation(cell+"/behaviour", rep, fmt.Sprintf("%s: written program (built as package main) behaves differently: %s", f.ID, c39FirstDiff(rw.out, rg.out, rw.exit, rg.exit)))
						continue
					}
				}
			}
			if want.err == "timeout" || got.err == "timeout" {
				r.Count("run_timeout_inconclusive", 1)
				continue
			}
			if want.err != "" {
				// the reference program itself kills the process: nothing to compare against
				r.Count("reference_run_crashed", 1)
				continue
			}
			r.Eval(1)
			r.Count("trace_lines_compared", int64(strings.Count(want.out, "\n")))
			if want.out != got.out || want.exit != got.exit {
				rep.WantOut, rep.GotOut = fw.Clip(want.out, 4000), fw.Clip(got.out, 4000)
				r.Violation(cell+"/behaviour", rep, fmt.Sprintf("%s: written program behaves differently: %s", f.ID, c39FirstDiff(want.out, got.out, want.exit, got.exit)))
				continue
			}
			if verbose {
				fmt.Printf("%s: written, structurally equal (%d declarations), builds, same output (%d lines)\n", f.ID, res.Decls, strings.Count(want.out, "\n"))
			}
			r.Sample(map[string]interface{}{"id": f.ID, "cell": cell, "features": f.Feats, "declarations": res.Decls, "trace_lines": strings.Count(want.out, "\n"), "source_head": fw.Clip(f.Src, 500)})
		}
		os.RemoveAll(dir)
	}
}

func c39FirstDiff(want, got string, we, ge int) string {
	wl, gl := strings.Split(want, "\n"), strings.Split(got, "\n")
	for i := 0; i < len(wl) && i < len(gl); i++ {
		if wl[i] != gl[i] {
			return fmt.Sprintf("line %d: reference %q, written %q", i+1, fw.Clip(wl[i], 200), fw.Clip(gl[i], 200))
		}
	}
	if len(wl) != len(gl) {
		return fmt.Sprintf("reference prints %d lines, written %d", len(wl)-1, len(gl)-1)
	}
	return fmt.Sprintf("exit code: reference %d, written %d", we, ge)
}

func checkC39(r *fw.Run) {
	r.SetRule(c39Rule)
	r.Assume("go/parser, go/types and cmd/compile of the installed toolchain (go1.23.5, module language go1.18) are the reference; both programs of a pair are built by the same toolchain")
	r.Assume("for macro files the behavioural reference is the generator's hand-written expansion of its five macro templates; the structural reference uses gomacro's own parser and MacroExpandCodewalk in a second interpreter (checked separately by C20-C25)")
	r.Assume("comments are not compared (the writer keeps only the leading comment block)")
	base := fw.WorkDir("c39")
	defer os.RemoveAll(base)
	if p := fw.ReplayArg(); p != "" {
		var rep c39Replay
		if err := fw.LoadReplay(p, &rep); err != nil {
			panic(err)
		}
		fmt.Printf("replaying %s\n---- source\n%s\n", rep.File.ID, rep.File.Src)
		r.SetMinDistinct(0)
		c39Process(r, []*c39File{rep.File}, base, true, 1)
		if data, err := os.ReadFile(filepath.Join(base, "in", rep.File.ID, "prog.go")); err == nil {
			fmt.Printf("---- written by gomacro -m -w\n%s\n", data)
		}
		return
	}
	n := r.Pick(100, 2000)
	var files []*c39File
	for i := 0; i < n; i++ {
		files = append(files, c39Generate(i, r.Rng(fmt.Sprintf("file-%d", i))))
	}
	c39Process(r, files, base, false, r.Pick(20, 100))
	if bad := r.Counter("reference_does_not_build") + r.Counter("expectation_unavailable"); bad > int64(n/20+1) {
		r.Inconclusive(fmt.Sprintf("generator problem: %d of %d generated files have no usable reference", bad, n))
	}
	var fs []string
	for _, f := range files {
		fs = append(fs, f.ID)
	}
	sort.Strings(fs)
}
