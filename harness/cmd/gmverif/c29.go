package main

// C29 — xreflect canonical types: identity of repeated constructions, agreement of
// kind/size/align/string/fields/methods/elem/key with reflect, and agreement of the
// AssignableTo/ConvertibleTo/Comparable/Implements answers with reflect on non-emulated types.
//
// Corpus: every reflect.Type reachable from imports.Packages (c29_gen.go) plus bounded-exhaustive
// composites made with the Universe constructors. Every worker owns one Universe (xreflect is
// not goroutine-safe inside one Universe) and builds the whole corpus in its own seeded order.

import (
	"fmt"
	"go/ast"
	"os"
	r "reflect"
	"runtime"
	"sort"
	"strings"
	"sync"

	"github.com/cosmos72/gomacro/go/types"
	"github.com/cosmos72/gomacro/imports"
	xr "github.com/cosmos72/gomacro/xreflect"

	"gmverif/internal/fw"
)

func init() { register("C29", "exploration", checkC29) }

// ---------------------------------------------------------------- replay

type c29Replay struct {
	Worker  int      `json:"worker"`  // worker whose universe history must be rebuilt
	Workers int      `json:"workers"` // number of workers of the run
	Check   string   `json:"check"`   // attr | canon | pair | fromreflect
	A       *c29Spec `json:"a"`
	B       *c29Spec `json:"b,omitempty"`
	Detail  string   `json:"detail"`
}

// ---------------------------------------------------------------- worker

type c29Item struct {
	spec  *c29Spec
	t     xr.Type
	rt    r.Type // expected reflect.Type (exact) or t.ReflectType() (emulated)
	exact bool   // rt was computed independently with reflect constructors / is a compiled type
}

type c29W struct {
	run     *fw.Run
	id, n   int
	v       *xr.Universe
	c       *c29Corpus
	xt      []xr.Type // lazily FromReflectType(corpus[i])
	failed  []bool
	tok     int64
	replay  bool // verbose
	perTag  map[string]int
	tagLock *sync.Mutex
	tags    map[string]int
}

type c29Key struct{}

var c29Debug = os.Getenv("C29_DEBUG") != ""

// same reports whether a and b are the same type object (same *xtype): user data stored through
// one handle must be visible through the other.
func (w *c29W) same(a, b xr.Type) bool {
	if a == nil || b == nil {
		return a == nil && b == nil
	}
	w.tok++
	tok := w.tok
	a.SetUserData(c29Key{}, tok)
	x, ok := b.GetUserData(c29Key{})
	return ok && x == tok
}

func c29NewUniverse() *xr.Universe {
	v := xr.NewUniverse()
	// reflection-only mode: the importer finds no export data, as in an installation without Go toolchain.
	// (with go1.23 export data the default importer refuses most std packages: generics are unsupported)
	v.Importer = &xr.Importer{}
	return v
}

func (w *c29W) violation(tag string, check string, a, b *c29Spec, what string) {
	w.tagLock.Lock()
	w.tags[tag]++
	n := w.tags[tag]
	w.tagLock.Unlock()
	if w.replay {
		fmt.Printf("  MISMATCH %s: %s\n", tag, what)
		return
	}
	if n > 3 {
		if c29Debug {
			fmt.Printf("  MISMATCH %s: %s\n", tag, what)
		}
		w.run.Count("more_"+tag, 1)
		return
	}
	w.run.Violation(tag, c29Replay{Worker: w.id, Workers: w.n, Check: check, A: a, B: b, Detail: what}, what)
}

// recursiveCorner: identity of type objects is not demanded for types that involve a recursive type
// definition: gomacro approximates them (xreflect.Forward) and documents that corner cases may not work.
func (w *c29W) recursiveCorner(specs ...*c29Spec) bool {
	for _, s := range specs {
		if s != nil && w.c.specRecursive(s) {
			w.run.Count("excluded_identity_of_recursive_types", 1)
			return true
		}
	}
	return false
}

const c29FindingIface = "C29-named-iface-displaces-unnamed"

func (w *c29W) known(id string, check string, a, b *c29Spec, what string) {
	w.tagLock.Lock()
	w.tags[id]++
	n := w.tags[id]
	w.tagLock.Unlock()
	if w.replay {
		fmt.Printf("  MISMATCH (finding %s): %s\n", id, what)
		return
	}
	w.run.Count("occurrences_"+id, 1)
	if n > 2 {
		return
	}
	w.run.Known(id, c29Replay{Worker: w.id, Workers: w.n, Check: check, A: a, B: b, Detail: what}, what)
}

// get returns FromReflectType(corpus[i]), built on first use.
func (w *c29W) get(i int) xr.Type {
	if w.xt[i] != nil || w.failed[i] {
		return w.xt[i]
	}
	rt := w.c.types[i]
	func() {
		defer func() {
			if e := recover(); e != nil {
				w.failed[i] = true
				w.violation("fromreflect-panic", "fromreflect", w.c.spec(i), nil,
					fmt.Sprintf("FromReflectType(%v) panics: %v", rt, e))
			}
		}()
		w.xt[i] = w.v.FromReflectType(rt)
	}()
	if w.xt[i] == nil && !w.failed[i] {
		w.failed[i] = true
		w.violation("fromreflect-nil", "fromreflect", w.c.spec(i), nil, fmt.Sprintf("FromReflectType(%v) returns nil", rt))
	}
	return w.xt[i]
}

// lookup returns the universe's type for an arbitrary compiled reflect.Type (in the corpus or not).
func (w *c29W) lookup(rt r.Type) xr.Type {
	if i, ok := w.c.index[rt]; ok {
		return w.get(i)
	}
	return w.v.FromReflectType(rt)
}

// build constructs the type described by spec with the universe constructors.
func (w *c29W) build(s *c29Spec) c29Item {
	it := c29Item{spec: s, exact: true}
	arg := func(i int) c29Item {
		a := w.build(s.Args[i])
		if !a.exact {
			it.exact = false
		}
		return a
	}
	switch s.Op {
	case "rt":
		it.t, it.rt = w.get(s.Idx), w.c.types[s.Idx]
		if it.t == nil {
			panic(c29Skip{"base type not constructible"})
		}
		return it
	case "ptr":
		e := arg(0)
		it.t, it.rt = w.v.PtrTo(e.t), r.PtrTo(e.rt)
	case "slice":
		e := arg(0)
		it.t, it.rt = w.v.SliceOf(e.t), r.SliceOf(e.rt)
	case "array":
		e := arg(0)
		it.t, it.rt = w.v.ArrayOf(s.N, e.t), r.ArrayOf(s.N, e.rt)
	case "chan":
		e := arg(0)
		it.t, it.rt = w.v.ChanOf(r.ChanDir(s.N), e.t), r.ChanOf(r.ChanDir(s.N), e.rt)
	case "map":
		k, e := arg(0), arg(1)
		it.t, it.rt = w.v.MapOf(k.t, e.t), r.MapOf(k.rt, e.rt)
	case "func":
		var in, out []xr.Type
		var rin, rout []r.Type
		for i := range s.Args {
			a := arg(i)
			if i < s.N {
				in, rin = append(in, a.t), append(rin, a.rt)
			} else {
				out, rout = append(out, a.t), append(rout, a.rt)
			}
		}
		it.t, it.rt = w.v.FuncOf(in, out, s.Var), r.FuncOf(rin, rout, s.Var)
	case "struct":
		fields := make([]xr.StructField, len(s.Args))
		rfields := make([]r.StructField, len(s.Args))
		for i := range s.Args {
			a := arg(i)
			name := s.Names[i]
			var pkg *xr.Package
			if name == "" || !ast.IsExported(name) {
				it.exact = false // reflect.StructOf cannot express it: xreflect emulates (ReflectType doc, point 4)
				if name != "" {
					pkg = w.v.LoadPackage("gmverif/c29")
				}
			}
			tag := ""
			if i < len(s.Tags) {
				tag = s.Tags[i]
			}
			fields[i] = xr.StructField{Name: name, Pkg: pkg, Type: a.t, Tag: r.StructTag(tag)}
			rfields[i] = r.StructField{Name: name, Type: a.rt, Tag: r.StructTag(tag)}
		}
		it.t = w.v.StructOf(fields)
		if it.exact {
			it.rt = r.StructOf(rfields)
		}
	default:
		panic("c29: bad spec op " + s.Op)
	}
	if !it.exact {
		it.rt = it.t.ReflectType()
	}
	return it
}

type c29Skip struct{ why string }

// ---------------------------------------------------------------- attribute oracle

func (w *c29W) expect(it c29Item, what string, got, want interface{}) bool {
	w.run.Eval(1)
	if got == want {
		return true
	}
	w.violation("attr-"+strings.Fields(what)[0], "attr", it.spec, nil,
		fmt.Sprintf("type %v (reflect %v): %s: xreflect=%v reflect=%v", c29Str(it.t), it.rt, what, got, want))
	return false
}

func c29SpecKind(s *c29Spec) r.Kind {
	switch s.Op {
	case "ptr":
		return r.Ptr
	case "slice":
		return r.Slice
	case "array":
		return r.Array
	case "chan":
		return r.Chan
	case "map":
		return r.Map
	case "func":
		return r.Func
	case "struct":
		return r.Struct
	}
	return r.Invalid
}

func c29Str(t xr.Type) (s string) {
	defer func() {
		if e := recover(); e != nil {
			s = fmt.Sprintf("<String panics: %v>", e)
		}
	}()
	return t.String()
}

var c29RtForward = r.TypeOf((*xr.Forward)(nil)).Elem()

// c29Approx reports whether got is want with some components replaced by xreflect.Forward:
// the documented approximation of types that take part in a recursive type definition.
func c29Approx(got, want r.Type, depth int) bool {
	if got == want || got == c29RtForward {
		return true
	}
	if depth > 12 || got.Name() != "" || want.Name() != "" || got.Kind() != want.Kind() {
		return false
	}
	switch got.Kind() {
	case r.Ptr, r.Slice:
		return c29Approx(got.Elem(), want.Elem(), depth+1)
	case r.Array:
		return got.Len() == want.Len() && c29Approx(got.Elem(), want.Elem(), depth+1)
	case r.Chan:
		return got.ChanDir() == want.ChanDir() && c29Approx(got.Elem(), want.Elem(), depth+1)
	case r.Map:
		return c29Approx(got.Key(), want.Key(), depth+1) && c29Approx(got.Elem(), want.Elem(), depth+1)
	case r.Func:
		if got.NumIn() != want.NumIn() || got.NumOut() != want.NumOut() || got.IsVariadic() != want.IsVariadic() {
			return false
		}
		for i := 0; i < got.NumIn(); i++ {
			if !c29Approx(got.In(i), want.In(i), depth+1) {
				return false
			}
		}
		for i := 0; i < got.NumOut(); i++ {
			if !c29Approx(got.Out(i), want.Out(i), depth+1) {
				return false
			}
		}
		return true
	case r.Struct:
		if got.NumField() != want.NumField() {
			return false
		}
		for i := 0; i < got.NumField(); i++ {
			f, g := got.Field(i), want.Field(i)
			if f.Name != g.Name || f.PkgPath != g.PkgPath || f.Tag != g.Tag || !c29Approx(f.Type, g.Type, depth+1) {
				return false
			}
		}
		return true
	}
	return false
}

// rtypeOK checks t.ReflectType() against the compiled type; a Forward approximation is the
// documented emulation of recursive types: it is counted and reported as 'approximate', not as a mismatch.
func (w *c29W) rtypeOK(it c29Item, what string, t xr.Type, want r.Type) (exact bool) {
	w.run.Eval(1)
	got := t.ReflectType()
	if got == want {
		return true
	}
	if c29Approx(got, want, 0) && w.c.specRecursive(it.spec) {
		w.run.Count("emulated_recursive_approximation", 1)
		return false
	}
	w.violation("attr-ReflectType", "attr", it.spec, nil,
		fmt.Sprintf("type %v: %s.ReflectType() = %v, expected %v", c29Str(it.t), what, got, want))
	return false
}

// sub checks that an accessor result (Elem, Key, Field(i).Type, In(i), Out(i)) agrees with reflect.
func (w *c29W) sub(it c29Item, what string, got xr.Type, want r.Type) {
	if got == nil {
		w.expect(it, what+" is nil", "nil", want.String())
		return
	}
	if !it.exact {
		// emulated parent: only the kind of the component is checked (unless reflect only has the Forward placeholder)
		if want != c29RtForward {
			w.expect(it, what+".Kind", got.Kind(), want.Kind())
		}
		return
	}
	w.expect(it, what+".Kind", got.Kind(), want.Kind())
	if !w.rtypeOK(it, what, got, want) {
		return
	}
	ref := w.lookup(want)
	if ref == nil {
		return
	}
	w.run.Eval(1)
	if !got.IdenticalTo(ref) {
		w.violation("accessor-not-identical", "attr", it.spec, nil,
			fmt.Sprintf("type %v: %s = %v is not IdenticalTo FromReflectType(%v) = %v", c29Str(it.t), what, c29Str(got), want, c29Str(ref)))
		return
	}
	if ref.ReflectType() != want {
		return // FromReflectType(want) itself is a recursive approximation, reported by its own case
	}
	w.run.Eval(1)
	if !w.same(got, ref) {
		msg := fmt.Sprintf("type %v: %s = %v is identical to but not the same object as FromReflectType(%v)", c29Str(it.t), what, c29Str(got), want)
		if w.recursiveCorner(it.spec) {
			return
		}
		if want.Kind() == r.Interface && want.Name() == "" {
			// finding C29-named-iface-displaces-unnamed: translating a named interface type registers its underlying
			// type under the named reflect.Type and displaces the cache entry of the identical unnamed interface type
			w.known(c29FindingIface, "attr", it.spec, nil, msg)
			return
		}
		w.violation("accessor-not-same-object", "attr", it.spec, nil, msg)
	}
}

func (w *c29W) checkAttr(it c29Item) {
	defer func() {
		if e := recover(); e != nil {
			if _, ok := e.(c29Skip); ok {
				return
			}
			w.run.Eval(1)
			w.violation("attr-panic", "attr", it.spec, nil, fmt.Sprintf("type %v (reflect %v): accessor panics: %v", c29Str(it.t), it.rt, e))
		}
	}()
	t, rt := it.t, it.rt
	run := w.run
	k := rt.Kind()
	// three states: exact (ReflectType is the independently computed reflect.Type), approx (it should be, but
	// xreflect holds a Forward approximation of a recursive type), emulated (reflect cannot express the type)
	approx := false
	if it.exact && !w.rtypeOK(it, "type", t, rt) {
		if !c29Approx(t.ReflectType(), rt, 0) {
			return // reported by rtypeOK
		}
		approx = true
		it.exact = false
	}
	emulated := !it.exact && !approx
	if emulated {
		k = c29SpecKind(it.spec)
	}
	run.Cover("kind", k.String())
	switch {
	case approx:
		run.Cover("state", "recursive approximation")
	case emulated:
		run.Cover("state", "emulated (StructOf with unexported/embedded fields)")
	default:
		run.Cover("state", "exact")
	}
	w.expect(it, "Kind", t.Kind(), k)
	if it.exact {
		w.expect(it, "Size", t.Size(), rt.Size())
		w.expect(it, "Align", t.Align(), rt.Align())
		w.expect(it, "FieldAlign", t.FieldAlign(), rt.FieldAlign())
	} else if art := t.ReflectType(); art.Kind() == k {
		// approximated/emulated: size and alignment are those of the approximating reflect.Type
		w.expect(it, "Size", t.Size(), art.Size())
		w.expect(it, "Align", t.Align(), art.Align())
	}
	if !emulated {
		w.expect(it, "Comparable", t.Comparable(), rt.Comparable())
		run.Cover("comparable", fmt.Sprint(rt.Comparable()))
		if k != r.UnsafePointer {
			w.expect(it, "Name", t.Name(), rt.Name())
			w.expect(it, "PkgPath", t.PkgPath(), rt.PkgPath())
		}
		w.expect(it, "Named", t.Named(), rt.Name() != "")
		want := c29Render(rt)
		if !strings.Contains(want, "\x00") {
			w.expect(it, "String", t.String(), want)
		}
	} else {
		w.expect(it, "String (from the constructor arguments)", t.String(), c29RenderSpec(w.c, it.spec))
		if k == r.Struct {
			w.checkStruct(it)
		}
		return
	}
	switch k {
	case r.Array:
		w.expect(it, "Len", t.Len(), rt.Len())
		w.sub(it, "Elem()", t.Elem(), rt.Elem())
	case r.Chan:
		w.expect(it, "ChanDir", t.ChanDir(), rt.ChanDir())
		w.sub(it, "Elem()", t.Elem(), rt.Elem())
	case r.Ptr, r.Slice:
		w.sub(it, "Elem()", t.Elem(), rt.Elem())
	case r.Map:
		w.sub(it, "Key()", t.Key(), rt.Key())
		w.sub(it, "Elem()", t.Elem(), rt.Elem())
	case r.Func:
		w.expect(it, "NumIn", t.NumIn(), rt.NumIn())
		w.expect(it, "NumOut", t.NumOut(), rt.NumOut())
		w.expect(it, "IsVariadic", t.IsVariadic(), rt.IsVariadic())
		if t.NumIn() == rt.NumIn() {
			for i := 0; i < rt.NumIn(); i++ {
				w.sub(it, fmt.Sprintf("In(%d)", i), t.In(i), rt.In(i))
			}
		}
		if t.NumOut() == rt.NumOut() {
			for i := 0; i < rt.NumOut(); i++ {
				w.sub(it, fmt.Sprintf("Out(%d)", i), t.Out(i), rt.Out(i))
			}
		}
	case r.Struct:
		w.checkStruct(it)
	}
	w.checkMethods(it)
}

func (w *c29W) checkStruct(it c29Item) {
	t, rt := it.t, it.rt
	emulated := it.spec.Op == "struct" && !c29SpecExact(it.spec)
	if emulated {
		if !w.expect(it, "NumField", t.NumField(), len(it.spec.Args)) {
			return
		}
		if rt.Kind() != r.Struct || rt.NumField() != t.NumField() {
			// the emulation itself is approximated by Forward (recursive component): only names can be checked
			for i := range it.spec.Args {
				f := t.Field(i)
				if n := it.spec.Names[i]; n != "" {
					w.expect(it, fmt.Sprintf("Field(%d).Name", i), f.Name, n)
				}
				w.expect(it, fmt.Sprintf("Field(%d).Anonymous", i), f.Anonymous, it.spec.Names[i] == "")
			}
			return
		}
	} else if !w.expect(it, "NumField", t.NumField(), rt.NumField()) {
		return
	}
	for i := 0; i < rt.NumField(); i++ {
		f, rf := t.Field(i), rt.Field(i)
		p := fmt.Sprintf("Field(%d)", i)
		wantName, wantAnon, wantPkg := rf.Name, rf.Anonymous, rf.PkgPath
		if emulated {
			// emulated struct: names/embedding are those given to StructOf, the reflect.Type only has mangled names
			wantName, wantAnon = it.spec.Names[i], it.spec.Names[i] == ""
			wantPkg = ""
			if wantAnon {
				a := w.build(it.spec.Args[i])
				wantName = a.t.Name()
				if wantName == "" && a.t.Kind() == r.Ptr {
					wantName = a.t.Elem().Name()
				}
			} else if !ast.IsExported(wantName) {
				wantPkg = "gmverif/c29"
			}
		}
		w.expect(it, p+".Name", f.Name, wantName)
		w.expect(it, p+".Anonymous", f.Anonymous, wantAnon)
		if it.exact || emulated {
			w.expect(it, p+".Offset", f.Offset, rf.Offset)
		}
		if it.exact || emulated {
			w.expect(it, p+".Tag", f.Tag, rf.Tag)
			w.expect(it, p+".Index", fmt.Sprint(f.Index), fmt.Sprint(rf.Index))
		}
		if !ast.IsExported(wantName) && (it.spec.Op != "struct" || !wantAnon) {
			w.expect(it, p+".Pkg.Path", f.Pkg.Path(), wantPkg)
		}
		w.sub(it, p+".Type", f.Type, rf.Type)
	}
	if it.exact {
		w.checkFieldByName(it)
	}
}

// fieldNames collects (name -> set of pkgpaths of unexported declarations) over the embedding tree.
func c29FieldNames(rt r.Type, depth int, seen map[r.Type]bool, out map[string]map[string]bool) {
	if rt.Kind() == r.Ptr {
		rt = rt.Elem()
	}
	if rt.Kind() != r.Struct || seen[rt] || depth > 6 {
		return
	}
	seen[rt] = true
	for i := 0; i < rt.NumField(); i++ {
		f := rt.Field(i)
		if out[f.Name] == nil {
			out[f.Name] = map[string]bool{}
		}
		out[f.Name][f.PkgPath] = true
		if f.Anonymous {
			c29FieldNames(f.Type, depth+1, seen, out)
		}
	}
}

func (w *c29W) checkFieldByName(it c29Item) {
	t, rt := it.t, it.rt
	names := map[string]map[string]bool{}
	c29FieldNames(rt, 0, map[r.Type]bool{}, names)
	list := make([]string, 0, len(names))
	for n := range names {
		list = append(list, n)
	}
	sort.Strings(list)
	if len(list) > 60 {
		list = list[:60]
	}
	list = append(list, "NoSuchField_c29")
	for _, name := range list {
		if name == "_" {
			continue
		}
		pkgs := names[name]
		if len(pkgs) > 1 {
			continue // same unexported name declared in several packages: reflect.FieldByName ignores packages, no oracle
		}
		pkgpath := ""
		for p := range pkgs {
			pkgpath = p
		}
		rf, ok := rt.FieldByName(name)
		f, count := t.FieldByName(name, pkgpath)
		w.run.Cover("fieldbyname", fmt.Sprintf("found=%v depth=%d", ok, len(rf.Index)))
		// reflect reports ok=false both for 'absent' and for 'ambiguous at the shallowest depth'
		if !w.expect(it, "FieldByName("+name+") found-exactly-once", count == 1, ok) || !ok {
			continue
		}
		w.expect(it, "FieldByName("+name+").Index", fmt.Sprint(f.Index), fmt.Sprint(rf.Index))
		w.expect(it, "FieldByName("+name+").Name", f.Name, rf.Name)
		w.expect(it, "FieldByName("+name+").Anonymous", f.Anonymous, rf.Anonymous)
		if f.Type != nil {
			w.expect(it, "FieldByName("+name+").Type.ReflectType", f.Type.ReflectType(), rf.Type)
		}
		// total offset is meaningful only without pointer indirections on the path
		cur, off, ptr := rt, uintptr(0), false
		for _, idx := range rf.Index {
			if cur.Kind() == r.Ptr {
				ptr = true
				cur = cur.Elem()
			}
			sf := cur.Field(idx)
			off += sf.Offset
			cur = sf.Type
		}
		if !ptr {
			w.expect(it, "FieldByName("+name+").Offset", f.Offset, off)
		}
	}
}

// methods promoted to rt (or *rt) by embedded fields, by name
func c29Promoted(rt r.Type) map[string]bool {
	out := map[string]bool{}
	if rt.Kind() != r.Struct {
		return out
	}
	for i := 0; i < rt.NumField(); i++ {
		f := rt.Field(i)
		if !f.Anonymous {
			continue
		}
		ft := f.Type
		if ft.Kind() != r.Ptr && ft.Kind() != r.Interface {
			ft = r.PtrTo(ft)
		}
		for j := 0; j < ft.NumMethod(); j++ {
			out[ft.Method(j).Name] = true
		}
	}
	return out
}

// explicit reports whether method name of named type rt is declared on rt itself, judged from the
// symbol the method table points to: promoted methods are compiler-generated wrappers.
func c29Explicit(rt r.Type, name string) (explicit, known bool) {
	m, ok := rt.MethodByName(name)
	if !ok {
		m, ok = r.PtrTo(rt).MethodByName(name)
	}
	if !ok || !m.Func.IsValid() {
		return false, false
	}
	f := runtime.FuncForPC(m.Func.Pointer())
	if f == nil {
		return false, false
	}
	file, _ := f.FileLine(f.Entry())
	return file != "<autogenerated>", true
}

func (w *c29W) checkMethods(it c29Item) {
	t, rt := it.t, it.rt
	if !it.exact {
		return
	}
	k := rt.Kind()
	switch {
	case k == r.Interface:
		if !w.expect(it, "NumMethod (interface)", t.NumMethod(), rt.NumMethod()) {
			return
		}
		var got, want []string
		for i := 0; i < rt.NumMethod(); i++ {
			m := rt.Method(i)
			want = append(want, m.PkgPath+"."+m.Name)
			xm := t.Method(i)
			p := ""
			if !ast.IsExported(xm.Name) {
				p = xm.Pkg.Path()
			}
			got = append(got, p+"."+xm.Name)
			xm2, count := t.MethodByName(m.Name, m.PkgPath)
			w.expect(it, "MethodByName("+m.Name+") count", count, 1)
			if count == 1 {
				w.expect(it, "MethodByName("+m.Name+").Name", xm2.Name, m.Name)
			}
		}
		sort.Strings(got)
		sort.Strings(want)
		w.expect(it, "method names (interface)", strings.Join(got, " "), strings.Join(want, " "))
		if rt.NumMethod() > 0 {
			w.run.Cover("methods", "interface")
		}
		_, count := t.MethodByName("NoSuchMethod_c29", "")
		w.expect(it, "MethodByName(absent) count", count, 0)
		return
	case k == r.Ptr:
		e := rt.Elem()
		if e.Kind() == r.Ptr || e.Kind() == r.Interface || (e.Name() == "" && e.Kind() != r.Struct) {
			return
		}
		w.checkMethodSet(it, rt, e)
		return
	case rt.Name() == "" && k != r.Struct:
		w.expect(it, "NumMethod (unnamed non-interface)", t.NumMethod(), 0)
		return
	}
	// named non-interface type, or unnamed struct
	prt := r.PtrTo(rt)
	w.checkMethodSet(it, prt, rt)
	if rt.Name() == "" {
		w.expect(it, "NumMethod (unnamed struct)", t.NumMethod(), 0)
		return
	}
	// explicitly declared methods: all methods of *T except wrappers promoted from embedded fields
	promoted := c29Promoted(rt)
	var table map[string]bool
	if pkg, ok := imports.Packages[rt.PkgPath()]; ok {
		table = map[string]bool{}
		for _, n := range pkg.Wrappers[rt.Name()] {
			table[n] = true
		}
	}
	got := map[string]bool{}
	for i, n := 0, t.NumMethod(); i < n; i++ {
		m := t.Method(i)
		if ast.IsExported(m.Name) {
			got[m.Name] = true
		}
	}
	exactKnown := table != nil
	var wantExact []string
	for i := 0; i < prt.NumMethod(); i++ {
		name := prt.Method(i).Name
		if !promoted[name] {
			w.expect(it, "explicit method "+name+" listed by Method(i)", got[name], true)
		}
		expl, known := c29Explicit(rt, name)
		if !known || table == nil || expl == table[name] {
			if c29Debug && exactKnown {
				fmt.Printf("  NOEXACT %v.%s known=%v table=%v explicit=%v tablewrapper=%v\n", rt, name, known, table != nil, expl, table[name])
			}
			exactKnown = false // the two independent classifications disagree or are unavailable: bounds only
		}
		if expl {
			wantExact = append(wantExact, name)
		}
	}
	var gotList []string
	for n := range got {
		gotList = append(gotList, n)
		if _, ok := prt.MethodByName(n); !ok {
			w.expect(it, "Method(i) lists "+n+" which is in the method set of *T", false, true)
		}
	}
	if prt.NumMethod() > 0 {
		w.run.Cover("methods", fmt.Sprintf("named exact-oracle=%v promoted=%v", exactKnown, len(promoted) > 0))
	}
	if exactKnown {
		sort.Strings(gotList)
		sort.Strings(wantExact)
		w.expect(it, "exported explicit method names", strings.Join(gotList, " "), strings.Join(wantExact, " "))
	}
}

// checkMethodSet: every exported method in the method set of prt (= *T) must be found exactly once by
// MethodByName; a method that an embedded field would promote but that reflect does not list is
// ambiguous (or shadowed by a field, which MethodByName documents not to look at) and must not be found once.
func (w *c29W) checkMethodSet(it c29Item, prt, base r.Type) {
	t := it.t
	n := prt.NumMethod()
	inSet := map[string]bool{}
	for i := 0; i < n; i++ {
		m := prt.Method(i)
		inSet[m.Name] = true
		_, count := t.MethodByName(m.Name, "")
		w.expect(it, "MethodByName("+m.Name+") count for a method in reflect's method set of "+prt.String(), count, 1)
	}
	if n > 0 {
		w.run.Cover("methods", "methodset kind="+it.rt.Kind().String())
	}
	if base.Kind() == r.Struct {
		var fields map[string]map[string]bool
		cands := c29Promoted(base)
		names := make([]string, 0, len(cands))
		for name := range cands {
			names = append(names, name)
		}
		sort.Strings(names)
		for _, name := range names {
			if inSet[name] {
				continue
			}
			if fields == nil {
				fields = map[string]map[string]bool{}
				c29FieldNames(base, 0, map[r.Type]bool{}, fields)
			}
			if fields[name] != nil {
				w.run.Cover("methods", "promoted method shadowed by a field (no oracle)")
				continue
			}
			_, count := t.MethodByName(name, "")
			w.run.Cover("methods", "ambiguous promoted method")
			w.expect(it, "MethodByName("+name+") found-exactly-once for an ambiguous promoted method absent from reflect's method set of "+prt.String(), count == 1, false)
		}
	}
	// a name that is neither a method nor a field anywhere must not be found
	_, count := t.MethodByName("NoSuchMethod_c29", "")
	w.expect(it, "MethodByName(absent) count", count, 0)
}

// ---------------------------------------------------------------- canonical oracle

func (w *c29W) checkCanonCorpus(i int) {
	t := w.xt[i]
	if t == nil {
		return
	}
	rt := w.c.types[i]
	defer func() {
		if e := recover(); e != nil {
			w.violation("fromreflect-panic", "canon", w.c.spec(i), nil, fmt.Sprintf("second FromReflectType(%v) panics: %v", rt, e))
		}
	}()
	t2 := w.v.FromReflectType(rt)
	w.run.Eval(1)
	if t2 == nil || !t.IdenticalTo(t2) {
		w.violation("canon-fromreflect-not-identical", "canon", w.c.spec(i), nil,
			fmt.Sprintf("FromReflectType(%v) twice: results are not IdenticalTo each other: %v vs %v", rt, c29Str(t), c29Str(t2)))
		return
	}
	w.run.Eval(1)
	if !w.same(t, t2) {
		w.violation("canon-fromreflect-not-same-object", "canon", w.c.spec(i), nil,
			fmt.Sprintf("FromReflectType(%v) twice: identical types but two different type objects", rt))
	}
	// an unnamed composite rebuilt from its components must be the object obtained from reflection
	if rt.Name() != "" || t.ReflectType() != rt {
		return
	}
	var s *c29Spec
	arg := func(a r.Type) *c29Spec {
		j, ok := w.c.index[a]
		if !ok {
			panic(c29Skip{"component outside corpus"})
		}
		return w.c.spec(j)
	}
	switch rt.Kind() {
	case r.Ptr:
		s = &c29Spec{Op: "ptr", Args: []*c29Spec{arg(rt.Elem())}}
	case r.Slice:
		s = &c29Spec{Op: "slice", Args: []*c29Spec{arg(rt.Elem())}}
	case r.Array:
		s = &c29Spec{Op: "array", N: rt.Len(), Args: []*c29Spec{arg(rt.Elem())}}
	case r.Chan:
		s = &c29Spec{Op: "chan", N: int(rt.ChanDir()), Args: []*c29Spec{arg(rt.Elem())}}
	case r.Map:
		s = &c29Spec{Op: "map", Args: []*c29Spec{arg(rt.Key()), arg(rt.Elem())}}
	case r.Func:
		s = &c29Spec{Op: "func", N: rt.NumIn(), Var: rt.IsVariadic()}
		for j := 0; j < rt.NumIn(); j++ {
			s.Args = append(s.Args, arg(rt.In(j)))
		}
		for j := 0; j < rt.NumOut(); j++ {
			s.Args = append(s.Args, arg(rt.Out(j)))
		}
	default:
		return
	}
	w.run.Cover("canon", "components-vs-reflection "+rt.Kind().String())
	it := w.build(s)
	if it.t.ReflectType() != rt {
		if !w.rtypeOK(it, "constructor result", it.t, rt) {
			return // recursive approximation (counted) or violation (reported)
		}
	}
	w.run.Eval(1)
	if !it.t.IdenticalTo(t) {
		w.violation("canon-constructor-not-identical", "canon", s, w.c.spec(i),
			fmt.Sprintf("%v built from components is not IdenticalTo FromReflectType(%v) = %v", c29Str(it.t), rt, c29Str(t)))
		return
	}
	w.run.Eval(1)
	if !w.same(it.t, t) && !w.recursiveCorner(s) {
		w.violation("canon-constructor-not-same-object", "canon", s, w.c.spec(i),
			fmt.Sprintf("%v built from components is identical to but not the same object as FromReflectType(%v)", c29Str(it.t), rt))
	}
}

func (w *c29W) checkCanonComposite(s *c29Spec) (it c29Item, ok bool) {
	defer func() {
		if e := recover(); e != nil {
			ok = false
			if _, skip := e.(c29Skip); skip {
				return
			}
			w.run.Eval(1)
			w.violation("constructor-panic", "canon", s, nil, fmt.Sprintf("constructing %s panics: %v", c29RenderSpec(w.c, s), e))
		}
	}()
	it = w.build(s)
	it2 := w.build(s)
	w.run.Eval(1)
	w.run.Cover("canon", "constructor-twice "+s.Op)
	if !it.t.IdenticalTo(it2.t) {
		w.violation("canon-constructor-twice-not-identical", "canon", s, nil,
			fmt.Sprintf("constructing %s twice: results not IdenticalTo: %v vs %v", c29RenderSpec(w.c, s), c29Str(it.t), c29Str(it2.t)))
		return it, true
	}
	w.run.Eval(1)
	if !w.same(it.t, it2.t) && !w.recursiveCorner(s) {
		w.violation("canon-constructor-twice-not-same-object", "canon", s, nil,
			fmt.Sprintf("constructing %s twice: identical types but two different type objects", c29RenderSpec(w.c, s)))
	}
	if it.exact {
		t3 := w.v.FromReflectType(it.rt)
		w.run.Eval(1)
		if t3 == nil || !t3.IdenticalTo(it.t) {
			w.violation("canon-reflection-vs-constructor-not-identical", "canon", s, nil,
				fmt.Sprintf("FromReflectType(%v) = %v is not IdenticalTo the constructed %v", it.rt, c29Str(t3), c29Str(it.t)))
		} else if t3.ReflectType() != it.rt || it.t.ReflectType() != it.rt {
			w.rtypeOK(it, "FromReflectType(expected reflect.Type)", t3, it.rt) // approximation of a recursive type, or violation
		} else if !w.same(t3, it.t) && !w.recursiveCorner(s) {
			w.violation("canon-reflection-vs-constructor-not-same-object", "canon", s, nil,
				fmt.Sprintf("FromReflectType(%v) is identical to but not the same object as the constructed type", it.rt))
		}
	}
	return it, true
}

// ---------------------------------------------------------------- pair oracle

// c29ReflectNarrower recognises the documented places where reflect.ConvertibleTo is narrower or
// newer than the language rules gomacro implements; such pairs have no oracle here.
func c29ConvExcluded(a, b r.Type) string {
	ak, bk := a.Kind(), b.Kind()
	switch {
	case ak == r.UnsafePointer || bk == r.UnsafePointer:
		return "unsafe.Pointer" // reflect does not model unsafe conversions; gomacro documents them as unsupported
	case ak == r.Slice && bk == r.Array:
		return "slice->array (go1.20)"
	case ak == r.String && bk == r.Slice && b.Elem().PkgPath() != "" && (b.Elem().Kind() == r.Uint8 || b.Elem().Kind() == r.Int32):
		return "string->[]NamedByte" // reflect refuses named element types, the spec and go/types accept them
	case bk == r.String && ak == r.Slice && a.Elem().PkgPath() != "" && (a.Elem().Kind() == r.Uint8 || a.Elem().Kind() == r.Int32):
		return "[]NamedByte->string"
	}
	return ""
}

// c29HasUnexportedMethods: in reflection-only mode the go/types side cannot know the unexported
// methods of non-interface types (reflect hides them), so it is not comparable on its own there.
func c29HasUnexportedMethods(t r.Type) bool {
	if t.Kind() != r.Interface {
		return false
	}
	for i := 0; i < t.NumMethod(); i++ {
		if t.Method(i).PkgPath != "" {
			return true
		}
	}
	return false
}

func (w *c29W) checkPair(a, b c29Item) {
	defer func() {
		if e := recover(); e != nil {
			w.run.Eval(1)
			w.violation("pair-panic", "pair", a.spec, b.spec, fmt.Sprintf("predicates on (%v, %v) panic: %v", a.rt, b.rt, e))
		}
	}()
	run := w.run
	nontrivial := a.rt.Kind() == b.rt.Kind() || b.rt.Kind() == r.Interface
	cmp := func(pred string, got, want bool) {
		run.Eval(1)
		if want {
			nontrivial = true
		}
		if got != want {
			w.violation("pair-"+pred, "pair", a.spec, b.spec,
				fmt.Sprintf("<%v>.%s(<%v>): xreflect=%v reflect=%v", a.rt, pred, b.rt, got, want))
		}
	}
	wa := a.rt.AssignableTo(b.rt)
	cmp("AssignableTo", a.t.AssignableTo(b.t), wa)
	wc := a.rt.ConvertibleTo(b.rt)
	if why := c29ConvExcluded(a.rt, b.rt); why != "" {
		run.Count("convertible_excluded "+why, 1)
	} else {
		cmp("ConvertibleTo", a.t.ConvertibleTo(b.t), wc)
	}
	wi := false
	if b.rt.Kind() == r.Interface {
		wi = a.rt.Implements(b.rt)
		cmp("Implements", a.t.Implements(b.t), wi)
	}
	// information only (never a verdict): the go/types half of the predicates, which reflect's answer masks
	// through the 'reflect says yes' shortcut of xreflect; it is what emulated types rely on.
	if !c29HasUnexportedMethods(a.rt) && !c29HasUnexportedMethods(b.rt) {
		ga, gb := a.t.GoType(), b.t.GoType()
		if types.AssignableTo(ga, gb) != wa {
			run.Count(fmt.Sprintf("info_gotypes_half AssignableTo=%v reflect=%v", !wa, wa), 1)
		}
		if c29ConvExcluded(a.rt, b.rt) == "" && types.ConvertibleTo(ga, gb) != wc {
			run.Count(fmt.Sprintf("info_gotypes_half ConvertibleTo=%v reflect=%v %v->%v", !wc, wc, a.rt.Kind(), b.rt.Kind()), 1)
		}
	}
	w.run.Eval(1)
	if got, want := a.t.IdenticalTo(b.t), a.rt == b.rt; got != want {
		w.violation("pair-IdenticalTo", "pair", a.spec, b.spec, fmt.Sprintf("<%v>.IdenticalTo(<%v>): xreflect=%v, reflect types equal=%v", a.rt, b.rt, got, want))
	}
	if nontrivial {
		run.Distinct("P|" + c29SpecKey(a.spec) + "|" + c29SpecKey(b.spec))
		run.Cover("pair", fmt.Sprintf("assignable=%v convertible=%v implements=%v", wa, wc, wi))
		if wc && !wa {
			run.Cover("pair-convertible-kind", a.rt.Kind().String()+"->"+b.rt.Kind().String())
		}
	} else {
		run.Count("pairs_trivially_unrelated", 1)
	}
}

// ---------------------------------------------------------------- driver

func (w *c29W) runAll(plan *c29Plan) {
	rng := w.run.Rng(fmt.Sprintf("order-%d", w.id))
	order := rng.Perm(len(w.c.types))
	var comps []c29Item
	doComposites := func() {
		for _, s := range plan.composites {
			it, ok := w.checkCanonComposite(s)
			if !ok {
				it = c29Item{}
			}
			comps = append(comps, it) // parallel to plan.composites
		}
	}
	if w.id%2 == 1 {
		doComposites() // odd workers build composites before the bulk of the import tables
	}
	for _, i := range order {
		w.get(i)
	}
	if w.id%2 == 0 {
		doComposites()
	}
	// attributes: this worker's share
	for _, i := range order {
		if i%w.n != w.id || w.xt[i] == nil {
			continue
		}
		it := c29Item{spec: w.c.spec(i), t: w.xt[i], rt: w.c.types[i], exact: true}
		w.checkAttr(it)
		w.run.Distinct("T|" + c29SpecKey(it.spec))
	}
	for n, it := range comps {
		if n%w.n != w.id || it.t == nil {
			continue
		}
		w.checkAttr(it)
		w.run.Distinct("T|" + c29SpecKey(it.spec))
	}
	// canonical form, after accessors have been exercised
	for _, i := range order {
		if i%w.n != w.id {
			continue
		}
		func() {
			defer func() {
				if e := recover(); e != nil {
					if _, ok := e.(c29Skip); !ok {
						panic(e)
					}
				}
			}()
			w.checkCanonCorpus(i)
		}()
	}
	for n, s := range plan.composites {
		if n%w.n == w.id {
			w.checkCanonComposite(s)
		}
	}
	// pairs: rows of the pool assigned to this worker
	pool := make([]c29Item, 0, len(plan.pool))
	for _, s := range plan.pool {
		func() {
			defer func() {
				if e := recover(); e != nil {
					pool = append(pool, c29Item{})
				}
			}()
			it := w.build(s)
			if !it.exact || it.t.ReflectType() != it.rt {
				it = c29Item{} // emulated or recursive approximation: predicates are specified for non-emulated types only
			}
			pool = append(pool, it)
		}()
	}
	for i, a := range pool {
		if i%w.n != w.id || a.t == nil {
			continue
		}
		for _, b := range pool {
			if b.t != nil {
				w.checkPair(a, b)
			}
		}
	}
}

func c29NewWorker(run *fw.Run, c *c29Corpus, id, n int, lock *sync.Mutex, tags map[string]int) *c29W {
	return &c29W{run: run, id: id, n: n, v: c29NewUniverse(), c: c, xt: make([]xr.Type, len(c.types)),
		failed: make([]bool, len(c.types)), tagLock: lock, tags: tags}
}

func checkC29(run *fw.Run) {
	run.SetRule("corpus = every reflect.Type reachable (Elem/Key/Field/In/Out/Method/PtrTo of named) from imports.Packages Types and Binds, " +
		"a few compiled structs with ambiguous/shadowed/deep promoted fields and methods, plus composites built bounded-exhaustively with " +
		"PtrTo/SliceOf/ArrayOf/ChanOf/MapOf/FuncOf/StructOf over a base set (level 1 exhaustive; level 2 = unary constructors over level 1, sampled in quick); " +
		"each worker owns one Universe and builds everything in its own seeded order (composites before or after the import tables). " +
		"A type case is distinct per type; a pair case (all ordered pairs of a stratified pool) is distinct and non-trivial when the kinds are equal, " +
		"the target is an interface, or reflect answers true to some predicate. Oracle: FromReflectType twice, a constructor twice, constructor vs " +
		"reflection and accessor vs reflection give the same type object; Kind/Size/Align/String/Name/fields/method names/method set/Elem/Key/In/Out/" +
		"FieldByName equal reflect's; AssignableTo/ConvertibleTo/Implements/Comparable/IdenticalTo equal reflect's on non-emulated types.")
	run.Assume("reflect (go1.23) implements the Go typing rules for compiled types; where it is knowingly narrower (unsafe.Pointer conversions, string<->[]NamedByte) or newer than go1.18 (slice->array) the pair is excluded from ConvertibleTo")
	run.Assume("Universe runs in reflection-only mode (Importer finds no export data): go1.23 export data contains generics, which the importer documents as unsupported; the go/types-importer path of FromReflectType is not exercised")
	run.Assume("type-object identity is observed through Type.SetUserData/GetUserData, which live in the type object")
	run.Assume("types that involve a recursive type definition (static analysis of the reflect.Type graph) may be approximated with xreflect.Forward (documented limitation): for them Kind/String/names are still checked, ReflectType equality and cross-route object identity are counted but not demanded; emulated StructOf results (unexported/embedded fields) are checked against the constructor arguments only")
	run.Assume("the expected String() is rendered from reflect.Type in go/types notation with full package paths; explicit-vs-promoted methods are cross-checked with runtime.FuncForPC (<autogenerated>) and imports.Packages Wrappers, exact only when both agree")

	c := c29BuildCorpus()
	plan := c29MakePlan(run, c)
	run.Extra("corpus_types", len(c.types))
	nrec := 0
	for _, b := range c.recursive {
		if b {
			nrec++
		}
	}
	run.Extra("corpus_types_involving_recursive_definitions", nrec)
	run.Extra("composites", len(plan.composites))
	run.Extra("pair_pool", len(plan.pool))

	var lock sync.Mutex
	tags := map[string]int{}

	if path := fw.ReplayArg(); path != "" {
		var rp c29Replay
		if err := fw.LoadReplay(path, &rp); err != nil {
			run.Inconclusive("cannot load replay: " + err.Error())
			return
		}
		c29DoReplay(run, c, plan, rp, &lock, tags)
		return
	}

	// every worker rebuilds the whole corpus in its own order (about 2 s CPU each): few workers in the quick tier
	nw := run.Pick(4, 10)
	if nw > runtime.NumCPU() {
		nw = runtime.NumCPU()
	}
	if s := os.Getenv("C29_WORKERS"); s != "" {
		fmt.Sscan(s, &nw)
	}
	var wg sync.WaitGroup
	panics := make([]interface{}, nw)
	for id := 0; id < nw; id++ {
		wg.Add(1)
		go func(id int) {
			defer wg.Done()
			defer func() {
				if e := recover(); e != nil {
					panics[id] = e
				}
			}()
			c29NewWorker(run, c, id, nw, &lock, tags).runAll(plan)
		}(id)
	}
	wg.Wait()
	for _, e := range panics {
		if e != nil {
			panic(e)
		}
	}
	for _, s := range plan.samples {
		run.Sample(s)
	}
	if len(tags) > 0 {
		run.Extra("mismatch_tags", tags)
		if os.Getenv("C29_DEBUG") != "" {
			fmt.Println("mismatch tags:", tags)
		}
	}
}

func c29DoReplay(run *fw.Run, c *c29Corpus, plan *c29Plan, rp c29Replay, lock *sync.Mutex, tags map[string]int) {
	for _, fresh := range []bool{true, false} {
		w := c29NewWorker(run, c, rp.Worker, rp.Workers, lock, tags)
		w.replay = true
		if fresh {
			fmt.Println("== replay in a fresh universe")
		} else {
			fmt.Printf("== replay in the universe of worker %d/%d rebuilt with the history of the run\n", rp.Worker, rp.Workers)
			quiet := c29NewWorker(run, c, rp.Worker, rp.Workers, lock, tags)
			quiet.replay = true
			// rebuild history silently: same deterministic order as the run
			old := os.Stdout
			devnull, _ := os.OpenFile(os.DevNull, os.O_WRONLY, 0)
			os.Stdout = devnull
			quiet.runAll(plan)
			os.Stdout = old
			lock.Lock()
			for k := range tags {
				delete(tags, k)
			}
			lock.Unlock()
			w = quiet
		}
		func() {
			defer func() {
				if e := recover(); e != nil {
					fmt.Printf("  panic: %v\n", e)
				}
			}()
			switch rp.Check {
			case "fromreflect":
				t := w.v.FromReflectType(c.types[rp.A.Idx])
				fmt.Printf("  FromReflectType(%v) = %v\n", c.types[rp.A.Idx], c29Str(t))
			case "attr":
				it := w.build(rp.A)
				fmt.Printf("  xreflect: %v kind=%v size=%d reflect=%v\n  expected reflect.Type: %v\n", c29Str(it.t), it.t.Kind(), it.t.Size(), it.t.ReflectType(), it.rt)
				w.checkAttr(it)
			case "canon":
				if rp.A.Op == "rt" && rp.B == nil {
					w.get(rp.A.Idx)
					w.checkCanonCorpus(rp.A.Idx)
				} else {
					for i := 0; i < 3; i++ {
						it := w.build(rp.A)
						fmt.Printf("  construction %d: %v  ReflectType=%v\n", i+1, c29Str(it.t), it.t.ReflectType())
						for _, a := range rp.A.Args {
							ai := w.build(a)
							fmt.Printf("    component %v  ReflectType=%v\n", c29Str(ai.t), ai.t.ReflectType())
						}
					}
					w.checkCanonComposite(rp.A)
					if rp.B != nil && rp.B.Op == "rt" {
						w.get(rp.B.Idx)
						w.checkCanonCorpus(rp.B.Idx)
					}
				}
			case "pair":
				a, b := w.build(rp.A), w.build(rp.B)
				fmt.Printf("  A = %v (reflect %v)\n  B = %v (reflect %v)\n", c29Str(a.t), a.rt, c29Str(b.t), b.rt)
				fmt.Printf("  xreflect: AssignableTo=%v ConvertibleTo=%v\n  reflect : AssignableTo=%v ConvertibleTo=%v\n",
					a.t.AssignableTo(b.t), a.t.ConvertibleTo(b.t), a.rt.AssignableTo(b.rt), a.rt.ConvertibleTo(b.rt))
				if b.rt.Kind() == r.Interface {
					fmt.Printf("  xreflect: Implements=%v\n  reflect : Implements=%v\n", a.t.Implements(b.t), a.rt.Implements(b.rt))
				}
				w.checkPair(a, b)
			}
		}()
	}
	n := 0
	for _, k := range tags {
		n += k
	}
	fmt.Printf("== replay done: %d mismatches\n", n)
	run.Eval(1)
	run.SetMinDistinct(0)
	if n > 0 {
		if len(tags) == 1 && tags[c29FindingIface] > 0 {
			run.Known(c29FindingIface, rp, rp.Detail)
		} else {
			run.Violation("replay", rp, rp.Detail)
		}
	}
}
