package main

// E2 "inject" engine shared by C12 and C13: an interpreter session with injected compiled hooks,
// fault injection at the k-th hook call, the post-fault battery and the lock-step reference.

import (
	"fmt"
	"io"
	"os"
	"runtime"
	"sort"
	"strings"
	"sync/atomic"

	"github.com/cosmos72/gomacro/base"
	"github.com/cosmos72/gomacro/fast"
)

const (
	c12Count   = iota // count hook calls, inject nothing (stop at Cap)
	c12Panic          // the k-th hook call panics with c12Injected
	c13Sync           // the k-th hook call calls Interp.Interrupt from the interpreter's goroutine
	c13Async          // another goroutine calls Interp.Interrupt once Target hook calls were observed
	c12HardCap = 2000000
)

// c12Injected is the unique value the k-th hook call panics with.
type c12Injected struct {
	Probe string
	K     int64
}

// c12Stop is what a hook panics with to end a run the harness no longer wants to continue
// (cap of the counting run, bounded-progress overrun). It is never a verdict by itself.
type c12Stop struct{ Why string }

type c12Hook struct {
	s    *c12Session
	mode int
	k    int64
	cap  int64 // counting run: stop at this many calls (0 = no cap)
	n    int64 // hook calls in this run (atomic in async mode)

	fired  bool   // fault injected / interrupt delivered (sync)
	ctx    string // evidence: where the fault hit
	stop   string // non-empty: every further hook call panics with c12Stop{stop}
	seen   []string
	bound  int64 // C13: max counted hook calls after delivery
	after  int64 // C13: counted hook calls after delivery and before the interrupt panic was seen
	raised bool  // C13: probe reported (hx) that it recovered base.SigInterrupt

	// async
	target    int64
	reachedCh chan struct{}
	reached   bool
	delivered int32 // atomic: 1 once Interrupt() returned in the other goroutine
	atDeliver int64 // hook calls observed when Interrupt() returned
}

// context renders where the hook was called from. Evidence only, never asserted.
func (h *c12Hook) context() string {
	run := h.s.run
	d := 0
	if run.CurrEnv != nil {
		d = run.CurrEnv.CallDepth
	}
	if d > 5 {
		d = 5
	}
	return fmt.Sprintf("depth=%d in-deferred=%v panic-in-flight=%v", d, run.ExecFlags.IsDefer(), run.PanicFun != nil)
}

func (h *c12Hook) call(counted bool) int64 {
	if h.stop != "" {
		panic(c12Stop{h.stop})
	}
	var n int64
	if h.mode == c13Async {
		n = atomic.AddInt64(&h.n, 1)
	} else {
		h.n++
		n = h.n
	}
	if n > c12HardCap {
		h.stop = "hardcap"
		panic(c12Stop{h.stop})
	}
	switch h.mode {
	case c12Count:
		if h.cap > 0 && n >= h.cap {
			h.stop = "cap"
			panic(c12Stop{h.stop})
		}
	case c12Panic:
		if n == h.k {
			h.fired = true
			h.ctx = h.context()
			panic(c12Injected{h.s.probe.Name, h.k})
		}
	case c13Sync:
		if h.fired && !h.raised {
			if counted {
				h.after++
			}
			if h.after > h.bound {
				h.stop = "overrun"
				panic(c12Stop{h.stop})
			}
		}
		if n == h.k {
			h.fired = true
			h.ctx = h.context()
			h.s.ir.Interrupt(os.Interrupt)
		}
	case c13Async:
		if n == h.target && !h.reached {
			h.reached = true
			close(h.reachedCh)
		}
		if atomic.LoadInt32(&h.delivered) == 0 {
			if n > h.target && (n-h.target)%4096 == 0 {
				// the delivering goroutine did not get to run for thousands of hook calls (overloaded machine):
				// give it a chance, so that the run does not end inconclusive at the hard cap
				runtime.Gosched()
			}
		} else if !h.raised {
			if !h.fired {
				h.fired = true
				h.ctx = h.context()
			}
			if counted {
				h.after++
			}
			if h.after > h.bound {
				h.stop = "overrun"
				panic(c12Stop{h.stop})
			}
		}
	}
	return n
}

// report is hx(r): the probe tells the harness which value it recovered.
func (h *c12Hook) report(r interface{}) {
	if sig, ok := r.(base.Signal); ok && sig == base.SigInterrupt {
		h.raised = true
	}
	if len(h.seen) < 8 {
		h.seen = append(h.seen, c12Render(r))
	}
}

// c12State is the per-goroutine interpreter state after an aborted evaluation. Diagnosis only.
type c12State struct {
	ExecFlags  uint32 `json:"exec_flags"`
	CurrEnv    int    `json:"curr_env_depth"` // -1 = nil
	DeferOfFun bool   `json:"defer_of_fun_set"`
	PanicFun   bool   `json:"panic_fun_set"`
	Sync       uint8  `json:"sig_sync"`
	Debug      uint8  `json:"sig_debug"`
	Async      uint8  `json:"sig_async"`
	DebugDepth int    `json:"debug_depth"`
	PoolSize   int    `json:"pool_size"`
}

func (s *c12Session) state() c12State {
	run := s.run
	st := c12State{ExecFlags: uint32(run.ExecFlags), CurrEnv: -1, DeferOfFun: run.DeferOfFun != nil,
		PanicFun: run.PanicFun != nil, Sync: uint8(run.Signals.Sync), Debug: uint8(run.Signals.Debug),
		Async: uint8(run.Signals.Async), DebugDepth: run.DebugDepth, PoolSize: run.PoolSize}
	if run.CurrEnv != nil {
		st.CurrEnv = run.CurrEnv.CallDepth
	}
	return st
}

func (st c12State) shape() string {
	dd := "0"
	if st.DebugDepth != 0 {
		dd = "set"
	}
	return fmt.Sprintf("flags=%d currenv=%d deferof=%v panicfun=%v sig=%d/%d/%d dbgdepth=%s", st.ExecFlags, st.CurrEnv,
		st.DeferOfFun, st.PanicFun, st.Sync, st.Debug, st.Async, dd)
}

// c12Stepper is the debugger used to run a probe in single-step mode.
type c12Stepper struct{ stops int64 }

func (d *c12Stepper) Breakpoint(ir *fast.Interp, env *fast.Env) fast.DebugOp {
	return fast.DebugOpStep
}
func (d *c12Stepper) At(ir *fast.Interp, env *fast.Env) fast.DebugOp {
	d.stops++
	return fast.DebugOpStep
}

type c12Session struct {
	ir    *fast.Interp
	run   *fast.Run
	hook  *c12Hook
	probe *c12Probe
	mode  string        // plain | debugger | step
	dbg   fast.Debugger // debugger installed while the probe runs
	j     int           // battery runs so far
	names []string      // names that must stay defined
}

// c12NewSession builds an interpreter, injects the hooks and loads the battery and probe definitions.
func c12NewSession(p *c12Probe, mode string) (s *c12Session, err error) {
	defer func() {
		if r := recover(); r != nil {
			err = fmt.Errorf("probe %s mode %s: loading definitions: %v", p.Name, mode, c12Render(r))
		}
	}()
	ir := fast.New()
	g := &ir.Comp.Globals
	g.Stdout = io.Discard
	g.Stderr = io.Discard
	s = &c12Session{ir: ir, probe: p, mode: mode}
	s.hook = &c12Hook{s: s}
	if mode != "plain" {
		g.Options |= base.OptDebugger
	}
	if mode == "step" {
		s.dbg = &c12Stepper{}
	}
	ir.SetDebugger(s.dbg)
	h := s.hook
	ir.DeclFunc("hk", func() { h.call(true) })
	ir.DeclFunc("hd", func() { h.call(false) })
	ir.DeclFunc("hv", func() int { return int(h.call(true)) })
	ir.DeclFunc("hx", func(r interface{}) { h.report(r) })
	ir.DeclFunc("bs", func(v ...interface{}) string { return fmt.Sprint(v...) })
	// the Run of the interpreter's goroutine; PrepareEnv is called here once and never again by the harness,
	// because it clears pending signals
	s.run = ir.PrepareEnv().Run
	ir.Eval(c12BatteryDefs)
	save := g.Options
	g.Options |= base.OptDebugger
	ir.Eval(c12BatteryDbgDefs)
	g.Options = save
	src, err := c12ProbeSource(p, mode == "step")
	if err != nil {
		return nil, err
	}
	ir.Eval(src)
	for name := range ir.Comp.Binds {
		if strings.HasPrefix(name, "b") || strings.HasPrefix(name, "p") || name == "P" {
			s.names = append(s.names, name)
		}
	}
	sort.Strings(s.names)
	return s, nil
}

type c12RunResult struct {
	Outcome  string   `json:"outcome"`
	Panic    string   `json:"panic,omitempty"`
	Hooks    int64    `json:"hooks"`
	Fired    bool     `json:"fired"`
	Ctx      string   `json:"inject_context,omitempty"`
	After    int64    `json:"after,omitempty"`
	Raised   bool     `json:"raised_seen_by_probe,omitempty"`
	Stop     string   `json:"stop,omitempty"`
	Seen     []string `json:"recovered_by_probe,omitempty"`
	State    c12State `json:"state_after"`
	AtDeliv  int64    `json:"hooks_at_delivery,omitempty"`
	panicVal interface{}
}

func (p *c12Probe) invoke() string {
	if p.Invoke != "" {
		return p.Invoke
	}
	return "P()"
}

// runProbe evaluates the probe's entry point once with the hook armed as given.
func (s *c12Session) runProbe(invoke string, arm func(h *c12Hook)) *c12RunResult {
	h := s.hook
	*h = c12Hook{s: s}
	arm(h)
	res := &c12RunResult{}
	var deliverDone chan struct{}
	if h.mode == c13Async {
		h.reachedCh = make(chan struct{})
		deliverDone = make(chan struct{})
		go func() {
			defer close(deliverDone)
			<-h.reachedCh
			s.ir.Interrupt(os.Interrupt)
			atomic.StoreInt64(&h.atDeliver, atomic.LoadInt64(&h.n))
			atomic.StoreInt32(&h.delivered, 1)
		}()
	}
	func() {
		defer func() {
			if r := recover(); r != nil {
				res.panicVal = r
				res.Panic = c12Render(r)
			}
		}()
		s.ir.SetDebugger(s.dbg)
		e := s.ir.Compile(invoke)
		if s.mode == "step" {
			s.ir.DebugExpr(e)
		} else {
			s.ir.RunExpr(e)
		}
	}()
	if h.mode == c13Async {
		// the evaluation is over: if the target was never reached, deliver now (a late interrupt),
		// and in any case wait until the other goroutine is done before touching the interpreter again
		if !h.reached {
			h.reached = true
			close(h.reachedCh)
			res.Outcome = "late:"
		}
		<-deliverDone
		res.AtDeliv = atomic.LoadInt64(&h.atDeliver)
	}
	res.State = s.state()
	res.Hooks = atomic.LoadInt64(&h.n)
	res.Fired, res.Ctx, res.After, res.Raised, res.Stop, res.Seen = h.fired, h.ctx, h.after, h.raised, h.stop, h.seen
	switch v := res.panicVal.(type) {
	case nil:
		res.Outcome += "completed"
	case c12Injected:
		res.Outcome += "escaped-injected"
	case c12Stop:
		res.Outcome += "stopped-" + v.Why
	case base.Signal:
		if v == base.SigInterrupt {
			res.Outcome += "interrupted"
		} else {
			res.Outcome += "escaped-signal"
		}
	case string:
		if strings.HasPrefix(v, "probe:") {
			res.Outcome += "escaped-probe-panic"
		} else {
			res.Outcome += "escaped-other"
		}
	default:
		res.Outcome += "escaped-other"
	}
	// disarm: battery items never call the hooks, but a stale closure of the probe could
	*h = c12Hook{s: s, mode: c12Count}
	return res
}

// battery runs the whole battery once. The three sentinel items come first (the direct call, which involves no
// Eval and hence no prepareEnv/RunExpr reset, leads when directFirst is set, otherwise it follows the first Eval
// item); the others follow in an order rotated by rot, except the last one, which always runs last: it is a plain
// Eval, so that every battery run ends in the same idle state (the single-step item leaves debug mode on until the
// next RunExpr, and the reference - which runs no probe in between - would otherwise start its next battery with it).
func (s *c12Session) battery(directFirst bool, rot int) []string {
	s.j++
	const sentinels = 5
	out := make([]string, len(c12Battery))
	order := []int{0, 1, 2, 3, 4}
	if !directFirst {
		order = []int{1, 2, 0, 3, 4}
	}
	rest := len(c12Battery) - sentinels - 1
	for i := 0; i < rest; i++ {
		order = append(order, sentinels+(i+rot)%rest)
	}
	order = append(order, len(c12Battery)-1)
	for _, i := range order {
		out[i] = s.runItem(&c12Battery[i], s.j)
	}
	return out
}

// missingNames lists definitions that are no longer there.
func (s *c12Session) missingNames() []string {
	var missing []string
	for _, name := range s.names {
		if s.ir.Comp.TryResolve(name) == nil {
			missing = append(missing, name)
		}
	}
	return missing
}

// c12CheckWant checks the reference's battery answers against Go's.
func c12CheckWant(got []string, j int) []string {
	var bad []string
	for i, it := range c12Battery {
		if it.Want == "" {
			continue
		}
		want := c12Want(it.Want, j)
		ok := got[i] == want
		if strings.HasPrefix(want, "~") {
			ok = strings.Contains(got[i], want[1:])
		}
		if !ok {
			bad = append(bad, fmt.Sprintf("%s: %s = %q, Go gives %q", it.Name, strings.ReplaceAll(it.Src, "%d", fmt.Sprint(j)), got[i], want))
		}
	}
	return bad
}

func c12Diff(ref, got []string) []string {
	var d []string
	for i := range ref {
		if ref[i] != got[i] {
			d = append(d, fmt.Sprintf("%s: fresh interpreter %q, after the aborted evaluation %q", c12Battery[i].Name, ref[i], got[i]))
		}
	}
	return d
}
