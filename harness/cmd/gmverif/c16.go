package main

// C16 — package-level declarations in ONE evaluation may be written in any textual order; a set is
// rejected as a declaration loop only if Go also rejects it as an initialisation/declaration cycle.

import (
	"fmt"
	"go/importer"
	"math/rand"
	"os"
	"regexp"
	"strings"

	"gmverif/internal/fw"
)

func init() { register("C16", "exploration", checkC16) }

var c16Feats = []string{
	"plain", "plain", "plain", "plain", "plain", "plain", "plain", "plain", "plain", "plain", "plain",
	"mutual", "mutual", "method", "method", "method", "label", "sidefx", "sidefx", "fieldname",
}

func c16Perms(n int, want int, rng *rand.Rand) [][]int {
	id := make([]int, n)
	for i := range id {
		id[i] = i
	}
	rev := make([]int, n)
	for i := range rev {
		rev[i] = n - 1 - i
	}
	out := [][]int{id, rev}
	for len(out) < want {
		p := rng.Perm(n)
		out = append(out, p)
	}
	return out
}

func c16Progs(r *fw.Run, rng *rand.Rand, nsets, nperm int, firstSet int) []*Prog {
	var progs []*Prog
	for si := 0; si < nsets; si++ {
		feat := c16Feats[(si+firstSet)%len(c16Feats)]
		if f := os.Getenv("C16_FEAT"); f != "" {
			feat = f // development aid
		}
		var set *c16Set
		for try := 0; set == nil; try++ {
			set = c16Generate(rng, feat)
			if try > 200 {
				panic("c16: generator cannot produce a set with feature " + feat)
			}
		}
		prng := rand.New(rand.NewSource(rng.Int63()))
		for k, n := range set.cover {
			for i := 0; i < n; i++ {
				r.Cover("generated", k)
			}
		}
		r.Cover("set_size", fmt.Sprintf("%02d", len(set.items)))
		r.Cover("set_feature", feat)
		if only := os.Getenv("C16_ONLY"); only != "" && !strings.Contains(","+only+",", fmt.Sprintf(",%d,", si+firstSet)) {
			continue // development aid: keep the generator stream, run only the listed sets
		}
		units := set.unitTexts()
		seen := map[string]bool{}
		for pi, perm := range c16Perms(len(units), nperm, prng) {
			src := c16Render(units, perm, prng)
			if seen[src] {
				continue
			}
			seen[src] = true
			which := "random"
			if pi == 0 {
				which = "dependency-order"
			} else if pi == 1 {
				which = "reverse-dependency-order"
			}
			progs = append(progs, &Prog{
				ID:   fmt.Sprintf("c16-s%d-p%d", si+firstSet, pi),
				Src:  src,
				Cell: "valid/" + feat + "/" + which,
				Mode: map[string]string{"c16feat": feat},
			})
		}
	}
	return progs
}

// ---------------------------------------------------------------- must-reject side

// c16Invalid builds sets with a genuine initialisation cycle. Invalid recursive TYPES (a struct or
// array containing itself by value) are accepted by the interpreter as a documented side effect of
// its recursive-type emulation (doc/features-and-limitations.md) and are not generated.
func c16Invalid(rng *rand.Rand, n int) []*Prog {
	var progs []*Prog
	names := append([]string{}, c16Pool...)
	for i := 0; i < n; i++ {
		rng.Shuffle(len(names), func(a, b int) { names[a], names[b] = names[b], names[a] })
		A, B, C, F, G, T := "§"+names[0], "§"+names[1], "§"+names[2], "§"+names[3], "§"+names[4], "§"+names[5]
		k := rng.Intn(5)
		var decls []string
		shape := ""
		switch i % 12 {
		case 0:
			shape = "var-var"
			decls = []string{fmt.Sprintf("var %s = %s + %d", A, B, k), fmt.Sprintf("var %s = %s", B, A)}
		case 1:
			shape = "var-var-var"
			decls = []string{fmt.Sprintf("var %s = %s + %d", A, B, k), fmt.Sprintf("var %s = %s*2", B, C), fmt.Sprintf("var %s = %s", C, A)}
		case 2:
			shape = "var-func-body"
			decls = []string{fmt.Sprintf("var %s = %s(%d)", A, F, k), fmt.Sprintf("func %s(n int) int { return n + %s }", F, A)}
		case 3:
			shape = "var-func-func-body"
			decls = []string{fmt.Sprintf("var %s = %s(%d)", A, F, k), fmt.Sprintf("func %s(n int) int { return %s(n) + 1 }", F, G),
				fmt.Sprintf("func %s(n int) int { if n > 0 { return %s(n-1) }; return %s }", G, F, A)}
		case 4:
			shape = "var-closure"
			decls = []string{fmt.Sprintf("var %s = func() int { return %s + %d }()", A, B, k), fmt.Sprintf("var %s = %s", B, A)}
		case 5:
			shape = "var-func-value"
			decls = []string{fmt.Sprintf("var %s = %s", A, F), fmt.Sprintf("func %s() int { _ = %s; return %d }", F, A, k)}
		case 6:
			shape = "const-const"
			decls = []string{fmt.Sprintf("const %s = %s + %d", A, B, k), fmt.Sprintf("const %s = %s", B, A)}
		case 7:
			// the inner block shadows A only inside the block: the final use is the package-level variable
			shape = "var-func-after-shadow-block"
			decls = []string{fmt.Sprintf("var %s = %s()", A, F), fmt.Sprintf("func %s() int { { %s := %d; _ = %s }; return %s }", F, A, k, A, A)}
		case 8:
			// x := x + 1: the right-hand side is the package-level variable
			shape = "var-func-define-from-self"
			decls = []string{fmt.Sprintf("var %s = %s()", A, F), fmt.Sprintf("func %s() int { %s := %s + %d; return %s }", F, A, A, k, A)}
		case 9:
			shape = "var-index-expression"
			decls = []string{fmt.Sprintf("var %s = []int{%d, %s[0]}", A, k, B), fmt.Sprintf("var %s = []int{len(%s)}", B, A)}
		case 10:
			shape = "var-struct-literal"
			decls = []string{fmt.Sprintf("type %s struct { F0 int }", T), fmt.Sprintf("var %s = %s{F0: %s.F0 + %d}", A, T, B, k), fmt.Sprintf("var %s = %s{%s.F0}", B, T, A)}
		case 11:
			shape = "var-method-expression"
			decls = []string{fmt.Sprintf("type %s struct { F0 int }", T), fmt.Sprintf("func (t %s) %s() int { return t.F0 + %s }", T, G, A), fmt.Sprintf("var %s = %s.%s(%s{%d})", A, T, G, T, k)}
		}
		// unrelated valid declarations around the cycle
		decls = append(decls, fmt.Sprintf("var %s = %d", "§"+names[6], k), fmt.Sprintf("func %s() int { return %s }", "§"+names[7], "§"+names[6]))
		decls = append(decls, "func §P() { rec(1, "+"§"+names[7]+"()) }")
		rng.Shuffle(len(decls), func(a, b int) { decls[a], decls[b] = decls[b], decls[a] })
		progs = append(progs, &Prog{ID: fmt.Sprintf("c16-bad%d", i), Src: strings.Join(decls, "\n") + "\n", Cell: "cycle/" + shape, Mode: map[string]string{"c16feat": "cycle"}})
	}
	return progs
}

// ---------------------------------------------------------------- known findings

var c16ChunkRe = regexp.MustCompile(`^chunk \d+: `) // prefix added by the worker
var c16UsesRe = regexp.MustCompile(`(?m)^\s*(\S+) uses (\S+)\s*$`)
var c16FuncRe = regexp.MustCompile(`(?m)^func (?:\([^)]*\) )?([\pL_][\pL\pN_]*)\(`)
var c16LabelRe = regexp.MustCompile(`(?m)^\s*([\pL_][\pL\pN_]*):\s*$`)

func c16Classify(p *Prog, ref, got *Result, diff string) string {
	feat := p.Mode["c16feat"]
	src := p.plainSrc()
	cerr := strings.TrimSpace(c16ChunkRe.ReplaceAllString(got.CompileErr, ""))
	if got.End == "compile-error" && strings.HasPrefix(cerr, "declaration loop") {
		uses := c16UsesRe.FindAllStringSubmatch(cerr, -1)
		if len(uses) == 0 {
			return ""
		}
		funcs := map[string]bool{}
		for _, m := range c16FuncRe.FindAllStringSubmatch(src, -1) {
			funcs[m[1]] = true
		}
		labels := map[string]bool{}
		for _, m := range c16LabelRe.FindAllStringSubmatch(src, -1) {
			labels[m[1]] = true
		}
		allFuncs, viaLabel := true, false
		for _, u := range uses {
			if !funcs[u[1]] || !funcs[u[2]] {
				allFuncs = false
			}
			if funcs[u[1]] && labels[u[2]] {
				viaLabel = true
			}
		}
		// mutually recursive functions: the reported loop consists of functions only
		if feat == "mutual" && allFuncs {
			return "C16-mutually-recursive-functions-rejected"
		}
		// a label spelled like a package-level declaration is taken for a reference to it
		if feat == "label" && viaLabel {
			return "C16-label-taken-for-reference"
		}
		return ""
	}
	if got.End == "compile-error" && c16MultiVarRe.MatchString(got.CompileErr) && c16MultiVarSrcRe.MatchString(src) {
		return "C16-multi-value-var-declaration-rejected"
	}
	if feat == "fieldname" && got.End == "compile-error" {
		if m := c16UndefRe.FindStringSubmatch(got.CompileErr); m != nil && c16FieldHides(src, m[1]) {
			return "C16-struct-field-name-hides-package-level-name"
		}
	}
	if feat == "method" && got.End == "compile-error" {
		if m := c16UndefRe.FindStringSubmatch(got.CompileErr); m != nil && c16RecvHidden(src, m[1]) {
			return "C16-parameter-or-result-name-hides-receiver-type"
		}
	}
	if feat == "method" && got.End == "compile-error" && c16MethodErr(got.CompileErr, src) {
		return "C16-method-use-not-ordered-after-method-declaration"
	}
	if feat == "sidefx" && got.End == "ret" && ref.End == "ret" && len(got.Events) == len(ref.Events) {
		return "C16-initialisation-order-differs-with-side-effects"
	}
	return ""
}

var c16MultiVarRe = regexp.MustCompile(`unsupported package syntax, expecting a single package name, found: package [\pL\pN_]+, [\pL\pN_]+ = `)
var c16MultiVarSrcRe = regexp.MustCompile(`(?m)^(?:var )?\t?[\pL\pN_]+, [\pL\pN_]+ = [\pL\pN_]+\(`)
var c16UndefRe = regexp.MustCompile(`undefined identifier: ([\pL\pN_]+)`)
var c16StructRe = regexp.MustCompile(`(?m)^(?:type )?\t?([\pL_][\pL\pN_]*) struct \{([^}]*)\}`)

// c16FieldHides: `name` is a package-level type AND the name of a field of a package-level
// struct type that is followed by a field whose type mentions `name`.
func c16FieldHides(src, name string) bool {
	if !regexp.MustCompile(`(?m)^(?:type |\t)` + regexp.QuoteMeta(name) + ` [^\n]*$`).MatchString(src) {
		return false // not a package-level type
	}
	word := regexp.MustCompile(`(^|[^\pL\pN_])` + regexp.QuoteMeta(name) + `($|[^\pL\pN_])`)
	for _, m := range c16StructRe.FindAllStringSubmatch(src, -1) {
		hidden := false
		for _, f := range strings.Split(m[2], ";") {
			parts := strings.Fields(f)
			if len(parts) == 0 {
				continue
			}
			if hidden && len(parts) >= 2 && word.MatchString(strings.Join(parts[1:], " ")) {
				return true
			}
			if len(parts) >= 2 && parts[0] == name {
				hidden = true
			}
		}
	}
	return false
}

var c16MethodSigRe = regexp.MustCompile(`(?m)^func \([\pL\pN_]+ \*?([\pL\pN_]+)\) [\pL\pN_]+\(([^)]*)\) (\([^)]*\)|int)`)

// c16RecvHidden: `name` is the receiver type of a method that has a parameter or result with the same name.
func c16RecvHidden(src, name string) bool {
	for _, m := range c16MethodSigRe.FindAllStringSubmatch(src, -1) {
		if m[1] != name {
			continue
		}
		for _, f := range strings.Split(m[2]+","+strings.Trim(m[3], "()"), ",") {
			if parts := strings.Fields(f); len(parts) > 0 && parts[0] == name {
				return true
			}
		}
	}
	return false
}

var c16MethodDeclRe = regexp.MustCompile(`(?m)^func \([^)]*\) ([\pL_][\pL\pN_]*)\(`)

// c16MethodErr: the compile error complains about a selector `<expr>.M` where M is a method declared in the program.
func c16MethodErr(msg, src string) bool {
	for _, m := range c16MethodDeclRe.FindAllStringSubmatch(src, -1) {
		if regexp.MustCompile(`\.`+regexp.QuoteMeta(m[1])+`($|[^\pL\pN_])`).MatchString(msg) ||
			strings.Contains(msg, `method "`+m[1]+`"`) {
			return true
		}
	}
	return false
}

// ---------------------------------------------------------------- check

func checkC16(r *fw.Run) {
	r.SetRule("seeded random VALID sets of 3-12 package-level declarations (consts incl. typed and iota blocks, vars of int/named/struct/pointer/slice/map/array/func types with and without initialiser, multi-value vars, named/struct/array/func/slice/map/alias/interface types incl. struct types pointing to each other, funcs with extra parameters and named results, methods) built in rank order so that no initialisation cycle exists; references are placed in initialisers, type expressions and function bodies; parameters, results, receivers and locals (var, :=, for/if/switch headers, range key/value, type-switch binders, select receive, closure parameters, local consts and types, blocks) take the NAME of a package-level declaration of the set, of lower or HIGHER rank (higher = a spurious dependency would close a loop); feature strata: plain, mutual recursion, methods (+interfaces), labels spelled like declarations, initialisers with side effects; every set is written in dependency order, in reverse order and in seeded random permutations (adjacent specs randomly merged into parenthesised groups) and each text is evaluated by ONE Eval together with an observer that records every declared name's value and calls every function; oracle = trace equality with the same text compiled by Go (go/types is the validity gate); must-reject side: sets with a genuine cycle (go/types: initialization cycle / invalid recursive type) must fail to compile with zero events; distinct = distinct program texts with events")
	r.Assume("go/types + cmd/compile 1.23.5 (language go1.18) define validity, initialisation order and values")
	r.Assume("documented limitations excluded: package-level names in composite-literal keys; struct types containing themselves by value (accepted by the interpreter); values of recursive types are observed through their scalar fields only")
	o := e1Opts{Classify: c16Classify}
	if p := fw.ReplayArg(); p != "" {
		e1ReplayFile(r, p, e1Opts{Classify: c16Classify, CheckReject: true})
		return
	}
	rng := r.Rng("sets")
	nsets := r.Pick(300, 1200)
	if v := os.Getenv("C16_SETS"); v != "" {
		fmt.Sscan(v, &nsets) // development aid
	}
	nperm := r.Pick(8, 24)
	batch := 1000
	total := 0
	for first := 0; first < nsets; first += batch {
		n := batch
		if first+n > nsets {
			n = nsets - first
		}
		progs := c16Progs(r, rng, n, nperm, first)
		total += len(progs)
		e1Run(r, progs, o)
		if r.Violations() > 200 {
			break
		}
	}
	r.Extra("programs_valid_side", total)
	bad := c16Invalid(r.Rng("cycles"), r.Pick(120, 1200))
	ob := o
	ob.CheckReject = true
	e1Run(r, bad, ob)
	// the must-reject side is meaningful only if Go rejected (nearly) all of it
	if rej := r.Counter("gate_rejected"); rej < int64(len(bad)) {
		r.Inconclusive(fmt.Sprintf("generator problem: only %d of %d cyclic sets (plus accidental invalid sets) were rejected by go/types", rej, len(bad)))
	}
}

func init() {
	// `gmverif c16dump <seed> <feature> [n]`: print generated sets (debug aid)
	auxCmds["c16dump"] = func(args []string) {
		seed, feat, n := int64(1), "plain", 1
		if len(args) > 0 {
			fmt.Sscan(args[0], &seed)
		}
		if len(args) > 1 {
			feat = args[1]
		}
		if len(args) > 2 {
			fmt.Sscan(args[2], &n)
		}
		rng := rand.New(rand.NewSource(seed))
		for i := 0; i < n; i++ {
			var set *c16Set
			for set == nil {
				set = c16Generate(rng, feat)
			}
			units := set.unitTexts()
			perm := rng.Perm(len(units))
			src := c16Render(units, perm, rng)
			if os.Getenv("C16_GATE") != "" {
				// print only the sets go/types rejects
				p := &Prog{ID: "x", Src: src}
				e1GateOne(p, importer.Default())
				if !p.Reject {
					continue
				}
				fmt.Printf("// REJECTED: %s\n", p.GateErr)
			}
			fmt.Printf("// ---- set %d\n%s\n", i, strings.ReplaceAll(src, "§", ""))
		}
	}
}
