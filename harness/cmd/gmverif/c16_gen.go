package main

// C16 generator: random VALID sets of package-level declarations (consts, iota blocks, vars, types,
// funcs, methods) with references from initialisers, types and function bodies, locals shadowing
// package-level names, mutual recursion, closures. The set is built in rank order: a declaration
// refers only to declarations of lower rank (or to members of its own mutual group), so the set has
// no initialisation cycle by construction; go/types is the final gate.

import (
	"fmt"
	"math/rand"
	"sort"
	"strings"
)

type c16Field struct {
	name   string
	ft     string // int | N (named int) | P (*struct) | L ([]struct) | M (map[string]struct) | E (struct by value) | A (anonymous embedded struct)
	target *c16Item
}

type c16Item struct {
	name      string // with the § mark
	kind      string // const | var | type | func | method
	rank      int
	group     int // mutual group (funcs calling each other, struct types pointing to each other); 0 = none
	unit      int // permutation unit (members of one iota block / multi-var share it)
	vt        string
	vtT       *c16Item // type item for vt N,S,P,arr,iface
	tk        string   // type kind: int | struct | arr | func | slice | map | iface | alias
	fields    []c16Field
	alen      int64
	cval      int64
	nparm     int  // extra int parameters after n
	two       bool // returns (int, int)
	recv      *c16Item
	ptr       bool
	mname     string // method name with § mark
	sub       string // chunk flavour decided at plan time
	text      string // spec text after the keyword (const/var/type) or the full func declaration
	kw        string
	block     bool // text is a whole declaration that must not be merged with neighbours
	spec      *c16Spec
	writes    bool     // function writes a package-level variable
	method    *c16Item // for iface: the method it mirrors
	selfptr   bool     // struct type with a pointer to itself
	recursive bool     // struct type on a type cycle
	counter   bool     // variable reserved for side effects: never read inside expressions
}

type c16Spec struct {
	items []*c16Item
}

type c16Set struct {
	items []*c16Item
	units [][]*c16Item
	feat  map[string]bool
	cover map[string]int
}

type c16Gen struct {
	rng       *rand.Rand
	set       *c16Set
	names     []string
	fresh     int
	shadowLog []string // package-level names shadowed so far (consumed by stmt)
	// feature switches of this set
	fMutual, fMethod, fLabel, fSidefx, fField bool
}

var c16Pool = []string{"a", "b", "c", "d", "e", "f", "g", "h", "k", "m", "q", "r", "s", "u", "v", "w", "x", "y", "z", "aa", "bb"}

func (g *c16Gen) hit(p float64) bool { return g.rng.Float64() < p }

func (g *c16Gen) cov(s string) { g.set.cover[s]++ }

func (g *c16Gen) newItem(kind string) *c16Item {
	name := "§" + g.names[len(g.set.items)]
	it := &c16Item{name: name, kind: kind, rank: len(g.set.items)}
	it.unit = len(g.set.units)
	g.set.items = append(g.set.items, it)
	return it
}

func (g *c16Gen) endUnit(its ...*c16Item) {
	u := len(g.set.units)
	for _, it := range its {
		it.unit = u
	}
	g.set.units = append(g.set.units, its)
}

// ---------------------------------------------------------------- plan

func c16Generate(rng *rand.Rand, feat string) *c16Set {
	g := &c16Gen{rng: rng, set: &c16Set{feat: map[string]bool{}, cover: map[string]int{}}}
	switch feat {
	case "mutual":
		g.fMutual = true
	case "method":
		g.fMethod = true
	case "label":
		g.fLabel = true
	case "sidefx":
		g.fSidefx = true
	case "fieldname":
		g.fField = true
	}
	g.names = append([]string{}, c16Pool...)
	rng.Shuffle(len(g.names), func(i, j int) { g.names[i], g.names[j] = g.names[j], g.names[i] })
	target := 3 + rng.Intn(10)
	group := 0
	room := func() int { return target - len(g.set.items) }
	var structs []*c16Item
	if g.fSidefx && target < 7 {
		target = 7 + rng.Intn(6)
	}
	for room() > 0 {
		w := rng.Intn(100)
		if g.fSidefx {
			// mostly variables and functions: several initialisers calling several writers
			w = []int{30, 30, 30, 30, 80, 80, 80, 80, 5, 60}[rng.Intn(10)]
		}
		switch {
		case w < 12:
			it := g.newItem("const")
			g.endUnit(it)
		case w < 20 && room() >= 2:
			n := 2 + rng.Intn(3)
			if n > room() {
				n = room()
			}
			var its []*c16Item
			for i := 0; i < n; i++ {
				it := g.newItem("const")
				it.sub = "iota"
				its = append(its, it)
			}
			g.endUnit(its...)
		case w < 48:
			it := g.newItem("var")
			g.endUnit(it)
		case w < 54 && room() >= 2:
			a, b := g.newItem("var"), g.newItem("var")
			a.sub, b.sub = "multi", "multi"
			g.endUnit(a, b)
		case w < 64:
			it := g.newItem("type")
			g.endUnit(it)
			if it.tk = g.pickTypeKind(); it.tk == "struct" {
				structs = append(structs, it)
				it.selfptr = g.hit(0.3)
			}
		case w < 70 && room() >= 2:
			n := 2 + rng.Intn(2)
			if n > room() {
				n = room()
			}
			group++
			for i := 0; i < n; i++ {
				it := g.newItem("type")
				it.tk = "struct"
				it.group = group
				g.endUnit(it)
				structs = append(structs, it)
			}
		case w < 92:
			it := g.newItem("func")
			it.nparm = rng.Intn(3)
			it.two = g.hit(0.15)
			g.endUnit(it)
		case w < 100 && room() >= 2 && g.fMutual:
			n := 2 + rng.Intn(2)
			if n > room() {
				n = room()
			}
			group++
			for i := 0; i < n; i++ {
				it := g.newItem("func")
				it.nparm = rng.Intn(2)
				it.group = group
				g.endUnit(it)
			}
			g.set.feat["mutual"] = true
		}
		// methods are declared on non-recursive struct types only (methods of recursive types: corner
		// cases of the recursive-type emulation, documented limitation)
		var recvs []*c16Item
		for _, t := range structs {
			if t.group == 0 && !t.selfptr {
				recvs = append(recvs, t)
			}
		}
		if g.fMethod && len(recvs) > 0 && room() > 0 && g.hit(0.6) {
			it := g.newItem("method")
			it.recv = recvs[rng.Intn(len(recvs))]
			it.ptr = g.hit(0.4)
			it.nparm = rng.Intn(2)
			// the method name may collide with a package-level name: methods live in the type's namespace
			if g.hit(0.4) {
				it.mname = "§" + g.names[rng.Intn(target)]
				g.cov("method-name-collides")
			} else {
				it.mname = fmt.Sprintf("§M%d", it.rank)
			}
			for _, o := range g.set.items {
				if o != it && o.kind == "method" && o.recv == it.recv && o.mname == it.mname {
					it.mname = fmt.Sprintf("§M%d", it.rank)
				}
			}
			it.name = it.recv.name + "." + it.mname
			g.endUnit(it)
			g.set.feat["method"] = true
			if !it.ptr && room() > 0 && g.hit(0.3) {
				ifc := g.newItem("type")
				ifc.tk = "iface"
				ifc.method = it
				g.endUnit(ifc)
			}
		}
	}
	if g.fMutual && !g.set.feat["mutual"] {
		return nil
	}
	if g.fMethod && !g.set.feat["method"] {
		return nil
	}
	for _, it := range g.set.items {
		g.fill(it)
	}
	if g.fLabel && !g.set.feat["label"] {
		return nil
	}
	if g.fSidefx && !g.set.feat["sidefx"] {
		return nil
	}
	if g.fField && !g.set.feat["fieldname"] {
		return nil
	}
	return g.set
}

func (g *c16Gen) pickTypeKind() string {
	return []string{"int", "int", "struct", "struct", "struct", "arr", "func", "slice", "map", "alias"}[g.rng.Intn(10)]
}

// ---------------------------------------------------------------- visibility

// vis: may `from` refer to `to`?
func c16Vis(from, to *c16Item) bool {
	if to == from {
		return false
	}
	if to.rank < from.rank {
		return true
	}
	return from.group != 0 && from.group == to.group
}

func (g *c16Gen) visible(from *c16Item, pred func(*c16Item) bool) []*c16Item {
	var out []*c16Item
	for _, it := range g.set.items {
		if it.rank < from.rank && pred(it) {
			out = append(out, it)
		}
	}
	return out
}

// ---------------------------------------------------------------- fill (rank order)

func (g *c16Gen) fill(it *c16Item) {
	switch it.kind {
	case "const":
		g.fillConst(it)
	case "var":
		g.fillVar(it)
	case "type":
		g.fillType(it)
	case "func", "method":
		g.fillFunc(it)
	}
}

// constExpr returns an untyped integer constant expression over lower-ranked untyped constants.
func (g *c16Gen) constExpr(from *c16Item, depth int) (string, int64) {
	cs := g.visible(from, func(o *c16Item) bool {
		return o.kind == "const" && o.vt == "untyped" && o.cval > -1000000 && o.cval < 1000000
	})
	if depth <= 0 || g.hit(0.3) {
		if len(cs) > 0 && g.hit(0.75) {
			c := cs[g.rng.Intn(len(cs))]
			g.cov("ref:const-in-const")
			return c.name, c.cval
		}
		v := int64(g.rng.Intn(7))
		return fmt.Sprint(v), v
	}
	a, av := g.constExpr(from, depth-1)
	switch g.rng.Intn(4) {
	case 0:
		b, bv := g.constExpr(from, depth-1)
		return a + " + " + b, av + bv
	case 1:
		b, bv := g.constExpr(from, depth-1)
		return "(" + a + " - " + b + ")", av - bv
	case 2:
		k := int64(2 + g.rng.Intn(2))
		return fmt.Sprintf("(%s)*%d", a, k), av * k
	}
	k := 1 + g.rng.Intn(3)
	return fmt.Sprintf("len(%q) + %s", "xyz"[:k], a), int64(k) + av
}

func (g *c16Gen) constExprV(from *c16Item, depth int) (string, int64) {
	return g.constExpr(from, depth)
}

func (g *c16Gen) namedInts(from *c16Item) []*c16Item {
	return g.visible(from, func(o *c16Item) bool { return o.kind == "type" && o.tk == "int" })
}

func (g *c16Gen) fillConst(it *c16Item) {
	it.kw = "const"
	if it.sub == "iota" {
		u := g.set.units[it.unit]
		if u[0] != it {
			return
		}
		// whole block generated at its first member
		base, bv := g.constExprV(it, 1)
		forms := []string{"iota + %s", "iota*2 + %s", "(%s) - iota", "1<<iota + %s"}
		fi := g.rng.Intn(len(forms))
		typed := ""
		var tt *c16Item
		if nts := g.namedInts(it); len(nts) > 0 && g.hit(0.35) && !strings.Contains(base, "len(") {
			// (len() gives a constant of type int, which cannot initialise a constant of a named type)
			tt = nts[g.rng.Intn(len(nts))]
			typed = " " + tt.name
			g.cov("ref:type-in-const")
		}
		var b strings.Builder
		b.WriteString("const (\n")
		skip := 0
		if g.hit(0.3) {
			b.WriteString("\t_ = iota\n")
			skip = 1
		}
		for i, m := range u {
			io := int64(i + skip)
			switch fi {
			case 0:
				m.cval = io + bv
			case 1:
				m.cval = io*2 + bv
			case 2:
				m.cval = bv - io
			case 3:
				m.cval = 1<<uint(io) + bv
			}
			m.vt = "untyped"
			if strings.Contains(base, "len(") {
				m.vt = "int" // len() of a constant string is a constant of type int
			}
			if tt != nil {
				m.vt, m.vtT = "N", tt
			}
			if i == 0 {
				fmt.Fprintf(&b, "\t%s%s = %s\n", m.name, typed, fmt.Sprintf(forms[fi], base))
			} else {
				fmt.Fprintf(&b, "\t%s\n", m.name)
			}
			m.kw = "const"
		}
		b.WriteString(")\n")
		it.text = b.String()
		it.block = true
		g.cov("decl:iota-block")
		return
	}
	e, v := g.constExprV(it, 2)
	it.cval = v
	if nts := g.namedInts(it); len(nts) > 0 && g.hit(0.3) {
		t := nts[g.rng.Intn(len(nts))]
		it.vt, it.vtT = "N", t
		if g.hit(0.5) && !strings.Contains(e, "len(") {
			it.text = fmt.Sprintf("%s %s = %s", it.name, t.name, e)
		} else {
			it.text = fmt.Sprintf("%s = %s(%s)", it.name, t.name, e)
		}
		g.cov("ref:type-in-const")
		return
	}
	if g.hit(0.2) {
		it.vt = "int"
		it.text = fmt.Sprintf("%s int = %s", it.name, e)
		return
	}
	it.vt = "untyped"
	if strings.Contains(e, "len(") {
		it.vt = "int" // len() of a constant string is a constant of type int
	}
	it.text = fmt.Sprintf("%s = %s", it.name, e)
	g.cov("decl:const")
}

func (g *c16Gen) fillType(it *c16Item) {
	it.kw = "type"
	smallConst := func() string {
		cs := g.visible(it, func(o *c16Item) bool { return o.kind == "const" && o.vt == "untyped" && o.cval >= 1 && o.cval <= 5 })
		if len(cs) > 0 && g.hit(0.8) {
			c := cs[g.rng.Intn(len(cs))]
			it.alen = c.cval
			g.cov("ref:const-in-type")
			if g.hit(0.3) {
				it.alen++
				return c.name + " + 1"
			}
			return c.name
		}
		it.alen = int64(1 + g.rng.Intn(3))
		return fmt.Sprint(it.alen)
	}
	structs := func() []*c16Item {
		return g.visible(it, func(o *c16Item) bool { return o.kind == "type" && o.tk == "struct" })
	}
	switch it.tk {
	case "int":
		it.text = it.name + " int"
		if nts := g.namedInts(it); len(nts) > 0 && g.hit(0.3) {
			it.text = it.name + " " + nts[g.rng.Intn(len(nts))].name
			g.cov("ref:type-in-type")
		}
	case "arr":
		it.text = fmt.Sprintf("%s [%s]int", it.name, smallConst())
	case "func":
		it.text = it.name + " func(int) int"
		if nts := g.namedInts(it); len(nts) > 0 && g.hit(0.5) {
			// parameter NAME colliding with a package-level name inside a func type
			it.text = fmt.Sprintf("%s func(%s int) int", it.name, g.anyName())
		}
	case "slice", "map":
		var ss []*c16Item
		for _, o := range structs() {
			if !o.recursive {
				ss = append(ss, o)
			}
		}
		if len(ss) == 0 {
			it.tk = "int"
			it.text = it.name + " int"
			return
		}
		it.vtT = ss[g.rng.Intn(len(ss))]
		g.cov("ref:type-in-type")
		if it.tk == "slice" {
			it.text = fmt.Sprintf("%s []%s", it.name, it.vtT.name)
		} else {
			it.text = fmt.Sprintf("%s map[string]*%s", it.name, it.vtT.name)
		}
	case "alias":
		var ss []*c16Item
		for _, o := range structs() {
			// an alias of a type on a type cycle may be bound while that type is only forward-declared
			// (order-dependent failure in the recursive-type emulation: documented limitation)
			if !o.recursive {
				ss = append(ss, o)
			}
		}
		if len(ss) == 0 {
			it.tk = "int"
			it.text = it.name + " int"
			return
		}
		t := ss[g.rng.Intn(len(ss))]
		// an alias behaves exactly as its target
		it.tk = "struct"
		it.fields = t.fields
		it.recursive = t.recursive
		it.text = fmt.Sprintf("%s = %s", it.name, t.name)
		it.sub = "alias"
		g.cov("decl:alias")
	case "iface":
		m := it.method
		ps := "n int"
		for i := 0; i < m.nparm; i++ {
			ps += fmt.Sprintf(", p%d int", i)
		}
		it.text = fmt.Sprintf("%s interface { %s(%s) int }", it.name, m.mname, ps)
		g.cov("decl:interface")
	case "struct":
		it.fields = []c16Field{{name: "F0", ft: "int"}}
		used := map[string]bool{"F0": true}
		fname := func() string {
			for {
				n := fmt.Sprintf("F%d", len(used))
				if g.fField && g.hit(0.5) {
					// a field spelled like a package-level declaration: fields are not in lexical scope
					n = g.anyName()
					g.set.feat["fieldname"] = true
					g.cov("field-name-collides")
				}
				if !used[n] {
					used[n] = true
					return n
				}
			}
		}
		var mates []*c16Item
		for _, o := range g.set.items {
			if o != it && it.group != 0 && o.group == it.group {
				mates = append(mates, o)
			}
		}
		if it.selfptr {
			mates = append(mates, it) // pointer to itself
		}
		it.recursive = it.group != 0 || it.selfptr
		lower := structs()
		for _, o := range lower {
			if g.hit(0.3) {
				mates = append(mates, o)
			}
		}
		for _, o := range mates {
			ft := []string{"P", "P", "L", "M"}[g.rng.Intn(4)]
			if o.recursive {
				// recursive types are referred to through pointers only: nil slices/maps of them read as invalid
				// values in some positions (corner cases of the recursive-type emulation, documented limitation)
				ft = "P"
			}
			if o == it || o.group == it.group && it.group != 0 {
				// cycles among struct types go through pointers only (slices and maps of a type of the same
				// cycle hit corner cases of the recursive-type emulation: documented limitation)
				ft = "P"
			}
			it.fields = append(it.fields, c16Field{fname(), ft, o})
			g.cov("ref:type-in-type-indirect-" + ft)
		}
		var byval []*c16Item
		for _, o := range lower {
			// containing a recursive type by value is a recursive-type corner case (documented limitation)
			if !o.recursive {
				byval = append(byval, o)
			}
		}
		if len(byval) > 0 && g.hit(0.4) {
			o := byval[g.rng.Intn(len(byval))]
			if o.sub != "alias" && g.hit(0.4) && !used[o.name] {
				used[o.name] = true
				it.fields = append(it.fields, c16Field{o.name, "A", o})
				g.cov("ref:type-embedded")
			} else {
				it.fields = append(it.fields, c16Field{fname(), "E", o})
				g.cov("ref:type-by-value")
			}
		}
		if nts := g.namedInts(it); len(nts) > 0 && g.hit(0.5) {
			it.fields = append(it.fields, c16Field{fname(), "N", nts[g.rng.Intn(len(nts))]})
		}
		if g.hit(0.4) {
			it.fields = append(it.fields, c16Field{fname(), "int", nil})
		}
		g.rng.Shuffle(len(it.fields), func(i, j int) { it.fields[i], it.fields[j] = it.fields[j], it.fields[i] })
		var b strings.Builder
		fmt.Fprintf(&b, "%s struct {", it.name)
		for i, f := range it.fields {
			if i > 0 {
				b.WriteString(";")
			}
			switch f.ft {
			case "int":
				fmt.Fprintf(&b, " %s int", f.name)
			case "N", "E":
				fmt.Fprintf(&b, " %s %s", f.name, f.target.name)
			case "A":
				fmt.Fprintf(&b, " %s", f.target.name)
			case "P":
				fmt.Fprintf(&b, " %s *%s", f.name, f.target.name)
			case "L":
				fmt.Fprintf(&b, " %s []%s", f.name, f.target.name)
			case "M":
				fmt.Fprintf(&b, " %s map[string]%s", f.name, f.target.name)
			}
		}
		b.WriteString(" }")
		it.text = b.String()
		g.cov("decl:struct")
	}
}

// anyName returns a name of the plan (any rank, any kind), with the mark.
func (g *c16Gen) anyName() string {
	return "§" + g.names[g.rng.Intn(len(g.set.items))]
}

// structLit renders a composite literal of struct type t with int fields set from exprs.
func (g *c16Gen) structLit(sc *c16Scope, t *c16Item, depth int) string {
	keyed := g.hit(0.6)
	var parts []string
	for _, f := range t.fields {
		var v string
		switch f.ft {
		case "int":
			v = sc.intExpr(depth)
		case "N":
			v = fmt.Sprintf("%s(%s)", f.target.name, sc.atom(depth-1))
			if sc.shadowed(f.target.name) {
				v = "0"
				if !keyed {
					v = fmt.Sprint(g.rng.Intn(5))
				}
			}
		default:
			if keyed {
				continue
			}
			switch f.ft {
			case "P", "L", "M":
				v = "nil"
			default:
				if sc.shadowed(f.target.name) {
					return ""
				}
				v = f.target.name + "{}"
			}
		}
		if keyed {
			if g.hit(0.3) {
				continue
			}
			parts = append(parts, f.name+": "+v)
		} else {
			parts = append(parts, v)
		}
	}
	// parenthesised: a composite literal of a named type is ambiguous in if/for/switch headers
	return "(" + t.name + "{" + strings.Join(parts, ", ") + "})"
}

func (g *c16Gen) fillVar(it *c16Item) {
	it.kw = "var"
	sc := g.newScope(it, false)
	if it.sub == "multi" {
		u := g.set.units[it.unit]
		if u[0] != it {
			return
		}
		a, b := u[0], u[1]
		a.vt, b.vt = "int", "int"
		b.kw = "var"
		fs := g.visible(it, func(o *c16Item) bool { return o.kind == "func" && o.two })
		if len(fs) > 0 && g.hit(0.7) {
			f := fs[g.rng.Intn(len(fs))]
			it.text = fmt.Sprintf("%s, %s = %s", a.name, b.name, sc.call(f, "2", 1))
			g.cov("decl:var-multi-call")
		} else {
			e1 := sc.intExpr(2)
			// the second initialiser may refer to the first variable
			sc2 := g.newScope(b, false)
			e2 := sc2.intExpr(2)
			if g.hit(0.5) {
				e2 = a.name + " + " + e2
			}
			it.text = fmt.Sprintf("%s, %s = %s, %s", a.name, b.name, e1, e2)
			g.cov("decl:var-pair")
		}
		it.block = true
		it.text = "var " + it.text + "\n"
		return
	}
	type opt struct {
		w int
		f func() bool
	}
	structs := g.visible(it, func(o *c16Item) bool { return o.kind == "type" && o.tk == "struct" })
	opts := []opt{
		{40, func() bool {
			it.vt = "int"
			if g.fSidefx && g.hit(0.5) {
				// reserved for side effects of functions: read only by statements of its writers and by the observer,
				// never inside an expression that could also call a writer (operand order would be unspecified)
				it.counter = true
				it.text = fmt.Sprintf("%s = %d", it.name, g.rng.Intn(4))
				return true
			}
			if g.hit(0.3) {
				it.text = fmt.Sprintf("%s int = %s", it.name, sc.intExpr(3))
			} else {
				it.text = fmt.Sprintf("%s = %s", it.name, sc.intExpr(3))
			}
			return true
		}},
		{8, func() bool {
			nts := g.namedInts(it)
			if len(nts) == 0 {
				return false
			}
			t := nts[g.rng.Intn(len(nts))]
			it.vt, it.vtT = "N", t
			if g.hit(0.5) {
				it.text = fmt.Sprintf("%s %s = %s(%s)", it.name, t.name, t.name, sc.intExpr(2))
			} else {
				it.text = fmt.Sprintf("%s = %s(%s)", it.name, t.name, sc.intExpr(2))
			}
			g.cov("ref:type-in-var")
			return true
		}},
		{16, func() bool {
			if len(structs) == 0 {
				return false
			}
			t := structs[g.rng.Intn(len(structs))]
			lit := g.structLit(sc, t, 2)
			if lit == "" {
				return false
			}
			it.vtT = t
			g.cov("ref:type-in-var")
			switch g.rng.Intn(4) {
			case 0:
				it.vt = "S"
				it.text = fmt.Sprintf("%s %s", it.name, t.name)
				g.cov("decl:var-no-init")
			case 1:
				it.vt = "P"
				it.text = fmt.Sprintf("%s = &%s", it.name, lit)
			case 2:
				it.vt = "S"
				it.text = fmt.Sprintf("%s %s = %s", it.name, t.name, lit)
			default:
				it.vt = "S"
				it.text = fmt.Sprintf("%s = %s", it.name, lit)
			}
			return true
		}},
		{6, func() bool {
			it.vt = "sl"
			it.text = fmt.Sprintf("%s = []int{%s, %s}", it.name, sc.intExpr(2), sc.intExpr(2))
			return true
		}},
		{4, func() bool {
			it.vt = "mp"
			it.text = fmt.Sprintf("%s = map[string]int{\"k\": %s, \"j\": %s}", it.name, sc.intExpr(2), sc.intExpr(1))
			return true
		}},
		{10, func() bool {
			it.vt = "fn"
			inner := sc.child()
			p := inner.declare("int", true)
			it.text = fmt.Sprintf("%s = func(%s int) int { return %s + %s }", it.name, p, p, inner.intExpr(2))
			g.cov("decl:var-func-literal")
			return true
		}},
		{6, func() bool {
			ats := g.visible(it, func(o *c16Item) bool { return o.kind == "type" && o.tk == "arr" })
			if len(ats) == 0 {
				return false
			}
			t := ats[g.rng.Intn(len(ats))]
			it.vt, it.vtT = "arr", t
			if g.hit(0.5) {
				it.text = fmt.Sprintf("%s %s", it.name, t.name)
			} else {
				it.text = fmt.Sprintf("%s = %s{%s}", it.name, t.name, sc.intExpr(2))
			}
			g.cov("ref:type-in-var")
			return true
		}},
		{6, func() bool {
			fs := g.visible(it, func(o *c16Item) bool { return o.kind == "func" && !o.two && o.nparm == 0 })
			if len(fs) == 0 {
				return false
			}
			// a function VALUE (reference without a call)
			it.vt = "fn"
			it.text = fmt.Sprintf("%s = %s", it.name, fs[g.rng.Intn(len(fs))].name)
			g.cov("ref:func-value-in-var")
			return true
		}},
	}
	for {
		tot := 0
		for _, o := range opts {
			tot += o.w
		}
		k := g.rng.Intn(tot)
		for _, o := range opts {
			if k < o.w {
				if o.f() {
					g.cov("decl:var-" + it.vt)
					return
				}
				break
			}
			k -= o.w
		}
	}
}

// ---------------------------------------------------------------- scopes and expressions

type c16Local struct {
	name string
	typ  string // int | other
}

type c16Scope struct {
	g      *c16Gen
	from   *c16Item
	outer  *c16Scope
	decl   map[string]string // names declared at this level -> type
	inFunc bool              // inside a function body: `n` exists
	nName  string
	avoid  *map[string]bool // names no local may take (the accumulator)
}

func (g *c16Gen) newScope(from *c16Item, inFunc bool) *c16Scope {
	return &c16Scope{g: g, from: from, decl: map[string]string{}, inFunc: inFunc, avoid: &map[string]bool{}}
}

func (s *c16Scope) child() *c16Scope {
	return &c16Scope{g: s.g, from: s.from, outer: s, decl: map[string]string{}, inFunc: s.inFunc, nName: s.nName, avoid: s.avoid}
}

func (s *c16Scope) shadowed(name string) bool {
	for x := s; x != nil; x = x.outer {
		if _, ok := x.decl[name]; ok {
			return true
		}
	}
	return false
}

func (s *c16Scope) locals() []c16Local {
	var out []c16Local
	seen := map[string]bool{}
	for x := s; x != nil; x = x.outer {
		var ks []string
		for k := range x.decl {
			ks = append(ks, k)
		}
		sort.Strings(ks)
		for _, k := range ks {
			if !seen[k] {
				seen[k] = true
				out = append(out, c16Local{k, x.decl[k]})
			}
		}
	}
	return out
}

// declare picks a name for a new local at this level: often the name of a package-level
// declaration of the set (of any rank and kind), else a fresh one.
func (s *c16Scope) declare(typ string, allowShadow bool) string {
	g := s.g
	for try := 0; try < 8; try++ {
		if allowShadow && g.hit(0.65) {
			n := g.anyName()
			if g.hit(0.35) {
				// prefer a name that can be referred to again once the scope is closed
				var cands []string
				for _, o := range g.set.items {
					if s.pkgRef(o.name) != "" {
						cands = append(cands, o.name)
					}
				}
				if len(cands) > 0 {
					n = cands[g.rng.Intn(len(cands))]
				}
			}
			if _, dup := s.decl[n]; dup || (*s.avoid)[n] || n == s.nName {
				continue
			}
			s.decl[n] = typ
			g.shadowLog = append(g.shadowLog, n)
			// which kind of package-level declaration does it shadow, and is that one initialised after us?
			for _, o := range g.set.items {
				if o.name == n {
					when := "lower"
					if o.rank > s.from.rank {
						when = "higher"
					}
					g.cov("shadowed:" + o.kind + "-" + when)
				}
			}
			return n
		}
		break
	}
	g.fresh++
	n := fmt.Sprintf("l%d", g.fresh)
	s.decl[n] = typ
	return n
}

func (s *c16Scope) refs(pred func(*c16Item) bool) []*c16Item {
	var out []*c16Item
	for _, o := range s.g.set.items {
		if c16Vis(s.from, o) && pred(o) && !s.shadowed(o.name) && !o.counter {
			if o.vtT != nil && s.shadowed(o.vtT.name) && o.vt == "N" {
				// int(x) still works; fine
			}
			out = append(out, o)
		}
	}
	return out
}

// call renders a call of function/method value `f` (callee text given by the caller for methods).
func (s *c16Scope) call(f *c16Item, narg string, depth int) string {
	return s.callAs(f.name, f, narg, depth)
}

func (s *c16Scope) callAs(callee string, f *c16Item, narg string, depth int) string {
	args := []string{narg}
	for i := 0; i < f.nparm; i++ {
		args = append(args, s.atom(depth-1))
	}
	return callee + "(" + strings.Join(args, ", ") + ")"
}

func (s *c16Scope) fuelArg() string {
	if s.inFunc {
		return s.nName + "-1"
	}
	return fmt.Sprint(1 + s.g.rng.Intn(2))
}

// intField renders an int-valued field path of a struct value expression.
func (s *c16Scope) intField(x string, t *c16Item, depth int) string {
	var cands []string
	for _, f := range t.fields {
		switch f.ft {
		case "int":
			cands = append(cands, x+"."+f.name)
		case "N":
			cands = append(cands, "int("+x+"."+f.name+")")
		case "E", "A":
			if depth > 0 {
				name := f.name
				cands = append(cands, s.intField(x+"."+name, f.target, depth-1))
				if f.ft == "A" {
					// promoted field
					cands = append(cands, x+".F0")
				}
			}
		case "L", "M":
			cands = append(cands, "len("+x+"."+f.name+")")
		}
	}
	return cands[s.g.rng.Intn(len(cands))]
}

func (s *c16Scope) intExpr(depth int) string {
	g := s.g
	if depth <= 0 {
		return s.atom(depth)
	}
	if g.hit(0.25) {
		return s.atom(depth - 1)
	}
	switch g.rng.Intn(6) {
	case 0, 1:
		return s.atom(depth-1) + " + " + s.atom(depth-1)
	case 2:
		return "(" + s.intExpr(depth-1) + " - " + s.atom(depth-1) + ")"
	case 3:
		return fmt.Sprintf("(%s)*%d", s.intExpr(depth-1), 2+g.rng.Intn(2))
	default:
		return s.atom(depth)
	}
}

func (s *c16Scope) atom(depth int) string {
	g := s.g
	if depth < 0 {
		// leaf: a literal or an int local
		var ints []string
		for _, l := range s.locals() {
			if l.typ == "int" {
				ints = append(ints, l.name)
			}
		}
		if len(ints) > 0 && g.hit(0.6) {
			return ints[g.rng.Intn(len(ints))]
		}
		return fmt.Sprint(g.rng.Intn(9))
	}
	site := "init"
	if s.inFunc {
		site = "body"
	}
	for try := 0; try < 6; try++ {
		switch w := g.rng.Intn(100); {
		case w < 12:
			return fmt.Sprint(g.rng.Intn(9))
		case w < 30:
			ls := s.locals()
			var ints []string
			for _, l := range ls {
				if l.typ == "int" {
					ints = append(ints, l.name)
				}
			}
			if len(ints) > 0 {
				return ints[g.rng.Intn(len(ints))]
			}
		case w < 42:
			cs := s.refs(func(o *c16Item) bool { return o.kind == "const" })
			if len(cs) > 0 {
				c := cs[g.rng.Intn(len(cs))]
				g.cov("ref:const-in-" + site)
				if c.vt == "N" {
					return "int(" + c.name + ")"
				}
				return c.name
			}
		case w < 68:
			vs := s.refs(func(o *c16Item) bool { return o.kind == "var" })
			if len(vs) == 0 {
				continue
			}
			v := vs[g.rng.Intn(len(vs))]
			g.cov("ref:var-in-" + site)
			switch v.vt {
			case "int":
				return v.name
			case "N":
				return "int(" + v.name + ")"
			case "S", "P":
				return s.intField(v.name, v.vtT, 1)
			case "sl":
				return []string{v.name + "[0]", v.name + "[1]", "len(" + v.name + ")"}[g.rng.Intn(3)]
			case "mp":
				// (a bare map index as the only call argument is rejected by the interpreter: not this property's business)
				return []string{v.name + `["k"]*1`, v.name + `["nope"]*1`, "len(" + v.name + ")"}[g.rng.Intn(3)]
			case "fn":
				return v.name + "(" + s.smallArg(depth) + ")"
			case "arr":
				return []string{v.name + "[0]", "len(" + v.name + ")"}[g.rng.Intn(2)]
			}
		case w < 86:
			fs := s.refs(func(o *c16Item) bool { return o.kind == "func" })
			if len(fs) == 0 {
				continue
			}
			f := fs[g.rng.Intn(len(fs))]
			g.cov("ref:func-in-" + site)
			if f.group != 0 && f.group == s.from.group {
				g.cov("ref:mutual-recursion")
			}
			if f.two {
				inner := s.child()
				a, b := inner.declare("int", true), inner.declare("int", true)
				return fmt.Sprintf("func() int { %s, %s := %s; return %s - %s }()", a, b, s.call(f, s.fuelArg(), depth), a, b)
			}
			return s.call(f, s.fuelArg(), depth)
		case w < 92:
			// method call on a composite literal or on a package-level variable
			ms := s.refs(func(o *c16Item) bool { return o.kind == "method" })
			if len(ms) == 0 {
				continue
			}
			m := ms[g.rng.Intn(len(ms))]
			if s.shadowed(m.recv.name) {
				continue
			}
			vs := s.refs(func(o *c16Item) bool { return o.kind == "var" && o.vtT == m.recv && (o.vt == "S" || o.vt == "P") })
			g.cov("ref:method-in-" + site)
			// pointer-receiver methods modify their receiver: they are called on fresh literals only (calling them on a
			// package-level variable inside an expression that also reads it would have an unspecified result)
			if len(vs) > 0 && !m.ptr && g.hit(0.6) {
				return s.callAs(vs[g.rng.Intn(len(vs))].name+"."+m.mname, m, s.fuelArg(), depth)
			}
			lit := g.structLit(s, m.recv, depth-1)
			if lit == "" {
				continue
			}
			if m.ptr {
				return s.callAs("(&"+lit+")."+m.mname, m, s.fuelArg(), depth)
			}
			if g.hit(0.3) {
				// method expression
				return s.callAs(m.recv.name+"."+m.mname, m, lit+", "+s.fuelArg(), depth)
			}
			return s.callAs(lit+"."+m.mname, m, s.fuelArg(), depth)
		case w < 96:
			// closure called on the spot, with a parameter that may shadow
			inner := s.child()
			p := inner.declare("int", true)
			g.cov("closure-in-" + site)
			return fmt.Sprintf("func(%s int) int { return %s + %s }(%s)", p, p, inner.intExpr(depth-1), s.atom(-1))
		default:
			ts := s.refs(func(o *c16Item) bool { return o.kind == "type" && (o.tk == "int" || o.tk == "struct" || o.tk == "arr") })
			if len(ts) == 0 {
				continue
			}
			t := ts[g.rng.Intn(len(ts))]
			g.cov("ref:type-in-" + site)
			switch t.tk {
			case "int":
				return fmt.Sprintf("int(%s(%d))", t.name, g.rng.Intn(9))
			case "arr":
				return fmt.Sprintf("len(%s{})", t.name)
			default:
				lit := g.structLit(s, t, depth-1)
				if lit == "" {
					continue
				}
				return s.intField(lit, t, 0)
			}
		}
	}
	return fmt.Sprint(g.rng.Intn(9))
}

func (s *c16Scope) smallArg(depth int) string {
	// the argument may be the fuel of a function value (var e = f): 0 or 1, so that call chains through
	// function values stay short
	return fmt.Sprint(s.g.rng.Intn(2))
}

// ---------------------------------------------------------------- functions

type c16Body struct {
	b   strings.Builder
	acc string
}

func (g *c16Gen) fillFunc(it *c16Item) {
	sc := g.newScope(it, true)
	var hdr strings.Builder
	recvName := ""
	hdr.WriteString("func ")
	if it.kind == "method" {
		rn := sc.declare("other", true)
		if it.ptr {
			fmt.Fprintf(&hdr, "(%s *%s) ", rn, it.recv.name)
		} else {
			fmt.Fprintf(&hdr, "(%s %s) ", rn, it.recv.name)
		}
		sc.decl[rn] = "recv"
		recvName = rn
		hdr.WriteString(it.mname)
	} else {
		hdr.WriteString(it.name)
	}
	sc.nName = "n"
	sc.decl["n"] = "int"
	hdr.WriteString("(n int")
	for i := 0; i < it.nparm; i++ {
		p := sc.declare("int", true)
		g.cov("shadow-site:param")
		fmt.Fprintf(&hdr, ", %s int", p)
	}
	hdr.WriteString(") ")
	named := ""
	named2 := ""
	if it.two {
		if g.hit(0.5) {
			named, named2 = sc.declare("int", true), sc.declare("int", true)
			g.cov("shadow-site:result")
			fmt.Fprintf(&hdr, "(%s, %s int) ", named, named2)
		} else {
			hdr.WriteString("(int, int) ")
		}
	} else if g.hit(0.35) {
		named = sc.declare("int", true)
		g.cov("shadow-site:result")
		fmt.Fprintf(&hdr, "(%s int) ", named)
	} else {
		hdr.WriteString("int ")
	}
	var b strings.Builder
	b.WriteString(hdr.String())
	b.WriteString("{\n")
	base := g.rng.Intn(5)
	if it.two {
		fmt.Fprintf(&b, "\tif n <= 0 {\n\t\treturn %d, %d\n\t}\n", base, base+1)
	} else {
		fmt.Fprintf(&b, "\tif n <= 0 {\n\t\treturn %d\n\t}\n", base)
	}
	acc := named
	if acc == "" {
		acc = sc.declare("int", g.hit(0.3))
		fmt.Fprintf(&b, "\t%s := %d\n", acc, g.rng.Intn(4))
	} else {
		fmt.Fprintf(&b, "\t%s = %d\n", acc, g.rng.Intn(4))
	}
	(*sc.avoid)[acc] = true
	if it.kind == "method" {
		// use the receiver
		fmt.Fprintf(&b, "\t%s += %s.F0\n", acc, recvName)
		if it.ptr {
			fmt.Fprintf(&b, "\t%s.F0++\n", recvName)
		}
	}
	ns := 2 + g.rng.Intn(4)
	for i := 0; i < ns; i++ {
		g.stmt(&b, sc, acc, 1, it)
	}
	if it.two {
		if named2 != "" {
			fmt.Fprintf(&b, "\t%s = %s + 1\n\treturn\n", named2, acc)
		} else {
			fmt.Fprintf(&b, "\treturn %s, %s + %s\n", acc, acc, sc.atom(0))
		}
	} else if named != "" && g.hit(0.5) {
		b.WriteString("\treturn\n")
	} else {
		fmt.Fprintf(&b, "\treturn %s\n", acc)
	}
	b.WriteString("}\n")
	it.text = b.String()
	it.block = true
	g.cov("decl:" + it.kind)
}

func c16Ind(d int) string { return strings.Repeat("\t", d) }

// stmt emits one statement that folds something into acc.
// stmt emits one statement; afterwards, names of package-level declarations that were shadowed in
// scopes nested inside that statement are referred to again: there they denote the package-level
// declarations (a real dependency), which a dependency analysis that lets inner scopes leak misses.
func (g *c16Gen) stmt(b *strings.Builder, sc *c16Scope, acc string, d int, it *c16Item) {
	before := len(g.shadowLog)
	g.stmt1(b, sc, acc, d, it)
	for _, n := range g.shadowLog[before:] {
		if ref := sc.pkgRef(n); ref != "" && g.hit(0.6) {
			fmt.Fprintf(b, "%s%s += %s\n", c16Ind(d), acc, ref)
			g.cov("ref:after-inner-scope-shadowed-it")
		}
	}
	g.shadowLog = g.shadowLog[:before]
}

// pkgRef returns an int expression reading the package-level const/var `name`, if it is visible here.
func (s *c16Scope) pkgRef(name string) string {
	if s.shadowed(name) {
		return ""
	}
	for _, o := range s.g.set.items {
		if o.name != name || !c16Vis(s.from, o) || o.counter {
			continue
		}
		switch {
		case o.kind == "const" && o.vt != "N", o.kind == "var" && o.vt == "int":
			return name
		case (o.kind == "const" || o.kind == "var") && o.vt == "N":
			return "int(" + name + ")"
		}
	}
	return ""
}

func (g *c16Gen) stmt1(b *strings.Builder, sc *c16Scope, acc string, d int, it *c16Item) {
	in := c16Ind(d)
	w := g.rng.Intn(100)
	if g.fSidefx && g.hit(0.25) {
		w = 99
	}
	switch {
	case w < 12:
		fmt.Fprintf(b, "%s%s += %s\n", in, acc, sc.intExpr(2))
	case w < 24:
		e := sc.intExpr(2)
		// `x := x + 1` where the right-hand x is the package-level one is a real dependency: allowed when visible
		l := sc.declare("int", true)
		g.cov("shadow-site:short-var-decl")
		fmt.Fprintf(b, "%s%s := %s\n%s%s += %s\n", in, l, e, in, acc, l)
	case w < 32:
		e := sc.intExpr(2)
		l := sc.declare("int", true)
		g.cov("shadow-site:var")
		if g.hit(0.3) {
			// the assignment comes after the declaration: its right-hand side is in the scope of the new variable
			e = sc.intExpr(2)
			fmt.Fprintf(b, "%svar %s int\n%s%s = %s\n%s%s += %s\n", in, l, in, l, e, in, acc, l)
		} else {
			fmt.Fprintf(b, "%svar %s = %s\n%s%s += %s\n", in, l, e, in, acc, l)
		}
	case w < 38:
		e1, e2 := sc.intExpr(1), sc.intExpr(1)
		l1 := sc.declare("int", true)
		l2 := sc.declare("int", true)
		g.cov("shadow-site:short-var-decl-pair")
		fmt.Fprintf(b, "%s%s, %s := %s, %s\n%s%s += %s - %s\n", in, l1, l2, e1, e2, in, acc, l1, l2)
	case w < 46:
		in2 := sc.child()
		l := in2.declare("int", true)
		g.cov("shadow-site:for-init")
		fmt.Fprintf(b, "%sfor %s := 0; %s < 2; %s++ {\n%s\t%s += %s + %s\n", in, l, l, l, in, acc, l, in2.intExpr(1))
		if d < 3 && g.hit(0.3) {
			g.stmt(b, in2.child(), acc, d+1, it)
		}
		fmt.Fprintf(b, "%s}\n", in)
	case w < 56:
		x := fmt.Sprintf("[]int{%s, %s}", sc.intExpr(1), sc.intExpr(1))
		in2 := sc.child()
		switch g.rng.Intn(4) {
		case 0:
			k := in2.declare("int", true)
			g.cov("shadow-site:range-key")
			fmt.Fprintf(b, "%sfor %s := range %s {\n%s\t%s += %s + %s\n", in, k, x, in, acc, k, in2.intExpr(1))
		case 1:
			v := in2.declare("int", true)
			g.cov("shadow-site:range-value")
			fmt.Fprintf(b, "%sfor _, %s := range %s {\n%s\t%s += %s\n", in, v, x, in, acc, v)
		case 2:
			k := in2.declare("int", true)
			v := in2.declare("int", true)
			g.cov("shadow-site:range-key-value")
			fmt.Fprintf(b, "%sfor %s, %s := range %s {\n%s\t%s += %s*%s + %s\n", in, k, v, x, in, acc, k, v, in2.intExpr(1))
		default:
			// range with `=`: assigns to existing variables, possibly package-level ones (real dependency, side effect only on locals)
			k := sc.declare("int", true)
			g.cov("range-assign")
			x = fmt.Sprintf("[]int{%s, %s}", sc.intExpr(1), sc.intExpr(1)) // evaluated in the scope of the new variable
			fmt.Fprintf(b, "%svar %s int\n%sfor %s = range %s {\n%s\t%s += %s\n", in, k, in, k, x, in, acc, k)
		}
		if d < 3 && g.hit(0.3) {
			g.stmt(b, in2.child(), acc, d+1, it)
		}
		fmt.Fprintf(b, "%s}\n", in)
	case w < 63:
		e := sc.intExpr(2)
		in2 := sc.child()
		l := in2.declare("int", true)
		g.cov("shadow-site:if-init")
		fmt.Fprintf(b, "%sif %s := %s; %s > %d {\n%s\t%s += %s\n", in, l, e, l, g.rng.Intn(6), in, acc, l)
		if d < 3 && g.hit(0.4) {
			g.stmt(b, in2.child(), acc, d+1, it)
		}
		fmt.Fprintf(b, "%s} else {\n%s\t%s -= %s + %s\n%s}\n", in, in, acc, l, in2.intExpr(1), in)
	case w < 69:
		e := sc.intExpr(2)
		in2 := sc.child()
		l := in2.declare("int", true)
		g.cov("shadow-site:switch-init")
		c1 := in2.child()
		fmt.Fprintf(b, "%sswitch %s := %s; {\n%scase %s > 3:\n%s\t%s += %s\n", in, l, e, in, l, in, acc, l)
		if g.hit(0.5) {
			e2 := c1.intExpr(1)
			l2 := c1.declare("int", true)
			g.cov("shadow-site:case-clause-local")
			fmt.Fprintf(b, "%s\t%s := %s\n%s\t%s += %s\n", in, l2, e2, in, acc, l2)
		}
		fmt.Fprintf(b, "%sdefault:\n%s\t%s -= %s + %s\n%s}\n", in, in, acc, l, in2.intExpr(1), in)
	case w < 76:
		e := sc.intExpr(1)
		in2 := sc.child()
		l := in2.declare("other", true)
		g.cov("shadow-site:type-switch-binder")
		src := fmt.Sprintf("interface{}(%s)", e)
		if g.hit(0.4) {
			src = fmt.Sprintf("interface{}(%q)", "ab")
		}
		fmt.Fprintf(b, "%sswitch %s := %s.(type) {\n%scase int:\n%s\t%s += %s\n%scase string:\n%s\t%s += len(%s)\n%sdefault:\n%s\t_ = %s\n%s}\n",
			in, l, src, in, in, acc, l, in, in, acc, l, in, in, l, in)
	case w < 82:
		// block-local shadow, then the package-level name is visible again after the block
		in2 := sc.child()
		l := in2.declare("int", true)
		g.cov("shadow-site:block")
		fmt.Fprintf(b, "%s{\n%s\t%s := %s\n%s\t%s += %s\n%s}\n", in, in, l, sc.intExpr(1), in, acc, l, in)
		fmt.Fprintf(b, "%s%s += %s\n", in, acc, sc.intExpr(2))
	case w < 88:
		in2 := sc.child()
		p := in2.declare("int", true)
		g.cov("shadow-site:closure-param")
		cl := sc.declare("other", true)
		body := in2.intExpr(2)
		fmt.Fprintf(b, "%s%s := func(%s int) int {\n%s\treturn %s*2 + %s + %s\n%s}\n%s%s += %s(%s)\n", in, cl, p, in, p, body, acc, in, in, acc, cl, sc.atom(0))
	case w < 92:
		l := sc.declare("other", true)
		if g.hit(0.5) {
			g.cov("shadow-site:local-const")
			fmt.Fprintf(b, "%sconst %s = %d\n%s%s += %s\n", in, l, g.rng.Intn(7), in, acc, l)
			sc.decl[l] = "int"
		} else {
			g.cov("shadow-site:local-type")
			if g.hit(0.5) {
				fmt.Fprintf(b, "%stype %s int\n%s%s += int(%s(%d))\n", in, l, in, acc, l, g.rng.Intn(7))
			} else {
				f := "F0"
				if g.fField {
					f = g.anyName()
					g.cov("field-name-collides")
				}
				fmt.Fprintf(b, "%stype %s struct{ %s int }\n%s%s += %s{%s: %d}.%s\n", in, l, f, in, acc, l, f, g.rng.Intn(7), f)
				g.cov("field-name-collides")
			}
		}
	case w < 95:
		in2 := sc.child()
		ch := in2.declare("other", true)
		in3 := in2.child()
		l := in3.declare("int", true)
		g.cov("shadow-site:select-recv")
		fmt.Fprintf(b, "%s{\n%s\t%s := make(chan int, 1)\n%s\t%s <- %s\n%s\tselect {\n%s\tcase %s := <-%s:\n%s\t\t%s += %s\n%s\t}\n%s}\n",
			in, in, ch, in, ch, in2.intExpr(1), in, in, l, ch, in, acc, l, in, in)
	case w < 98:
		if !g.fLabel {
			fmt.Fprintf(b, "%s%s += %s\n", in, acc, sc.intExpr(2))
			return
		}
		// a label named like a package-level declaration: labels have their own namespace
		lab := g.anyName()
		in2 := sc.child()
		l := in2.declare("int", false)
		g.set.feat["label"] = true
		g.cov("label-name-collides")
		fmt.Fprintf(b, "%s%s:\n%sfor %s := 0; %s < 3; %s++ {\n%s\tif %s == 1 {\n%s\t\tcontinue %s\n%s\t}\n%s\t%s += %s\n%s}\n",
			in, lab, in, l, l, l, in, l, in, lab, in, in, acc, l, in)
	default:
		if !g.fSidefx {
			fmt.Fprintf(b, "%s%s += %s\n", in, acc, sc.intExpr(2))
			return
		}
		var vs []*c16Item
		for _, o := range g.set.items {
			if o.counter && c16Vis(it, o) && !sc.shadowed(o.name) {
				vs = append(vs, o)
			}
		}
		if len(vs) == 0 {
			return
		}
		v := vs[g.rng.Intn(len(vs))]
		it.writes = true
		g.set.feat["sidefx"] = true
		g.cov("side-effect-on-package-var")
		fmt.Fprintf(b, "%s%s = %s*3 + %d\n%s%s += %s\n", in, v.name, v.name, 1+g.rng.Intn(3), in, acc, v.name)
	}
}

// ---------------------------------------------------------------- rendering

// c16P renders the observer: it records every declared name's value and calls every function.
func (s *c16Set) observer() string {
	var b strings.Builder
	b.WriteString("func §P() {\n")
	for i, it := range s.items {
		tag := i + 1
		switch it.kind {
		case "const":
			fmt.Fprintf(&b, "\trec(%d, %s)\n", tag, it.name)
		case "var":
			switch it.vt {
			case "int", "N", "sl", "mp", "arr":
				fmt.Fprintf(&b, "\trec(%d, %s)\n", tag, it.name)
			case "fn":
				fmt.Fprintf(&b, "\trec(%d, %s(2))\n", tag, it.name)
			case "S", "P":
				fmt.Fprintf(&b, "\trec(%d, %s)\n", tag, c16Obs(it.name, it.vtT))
			}
		case "type":
			switch it.tk {
			case "int":
				fmt.Fprintf(&b, "\trec(%d, %s(%d) + 1)\n", tag, it.name, i)
			case "arr":
				fmt.Fprintf(&b, "\t{\n\t\tvar ob %s\n\t\tob[0] = %d\n\t\trec(%d, ob, len(ob))\n\t}\n", it.name, i, tag)
			case "func":
				fmt.Fprintf(&b, "\t{\n\t\tvar ob %s = func(qq int) int { return qq + %d }\n\t\trec(%d, ob(1))\n\t}\n", it.name, i, tag)
			case "slice":
				fmt.Fprintf(&b, "\t{\n\t\tob := %s{{F0: %d}, {}}\n\t\trec(%d, len(ob), ob[0].F0)\n\t}\n", it.name, i, tag)
			case "map":
				fmt.Fprintf(&b, "\t{\n\t\tob := %s{\"a\": {F0: %d}}\n\t\trec(%d, len(ob), ob[\"a\"].F0)\n\t}\n", it.name, i, tag)
			case "iface":
				m := it.method
				args := "2"
				for k := 0; k < m.nparm; k++ {
					args += fmt.Sprintf(", %d", k+3)
				}
				fmt.Fprintf(&b, "\t{\n\t\tvar ob %s = %s{F0: %d}\n\t\trec(%d, ob.%s(%s))\n\t}\n", it.name, m.recv.name, i, tag, m.mname, args)
			case "struct":
				fmt.Fprintf(&b, "\t{\n\t\tob := %s{F0: %d}\n", it.name, i)
				for _, f := range it.fields {
					switch f.ft {
					case "P":
						fmt.Fprintf(&b, "\t\tob.%s = &%s{F0: %d}\n\t\trec(%d, ob.%s.F0)\n", f.name, f.target.name, i+1, tag, f.name)
					case "L":
						fmt.Fprintf(&b, "\t\tob.%s = []%s{{F0: %d}}\n\t\trec(%d, ob.%s[0].F0, len(ob.%s))\n", f.name, f.target.name, i+2, tag, f.name, f.name)
					case "M":
						fmt.Fprintf(&b, "\t\tob.%s = map[string]%s{\"x\": {F0: %d}}\n\t\trec(%d, ob.%s[\"x\"].F0)\n", f.name, f.target.name, i+3, tag, f.name)
					}
				}
				fmt.Fprintf(&b, "\t\trec(%d, %s)\n\t}\n", tag, c16Obs("ob", it))
			}
		case "func":
			args := "2"
			for k := 0; k < it.nparm; k++ {
				args += fmt.Sprintf(", %d", k+3)
			}
			if it.two {
				fmt.Fprintf(&b, "\t{\n\t\tob1, ob2 := %s(%s)\n\t\trec(%d, ob1, ob2)\n\t}\n", it.name, args, tag)
			} else {
				fmt.Fprintf(&b, "\trec(%d, %s(%s), %s(0%s))\n", tag, it.name, args, it.name, args[1:])
			}
		case "method":
			args := "2"
			for k := 0; k < it.nparm; k++ {
				args += fmt.Sprintf(", %d", k+3)
			}
			if it.ptr {
				fmt.Fprintf(&b, "\t{\n\t\tob := &%s{F0: %d}\n\t\trec(%d, ob.%s(%s), ob.F0)\n\t}\n", it.recv.name, i, tag, it.mname, args)
			} else {
				fmt.Fprintf(&b, "\t{\n\t\tob := %s{F0: %d}\n\t\trec(%d, ob.%s(%s), ob.F0)\n\t\tobf := ob.%s\n\t\trec(%d, obf(%s))\n\t}\n", it.recv.name, i, tag, it.mname, args, it.mname, tag, args)
			}
		}
	}
	// second pass over the variables: functions may have changed them
	if s.feat["sidefx"] {
		for i, it := range s.items {
			if it.kind == "var" && it.vt == "int" {
				fmt.Fprintf(&b, "\trec(%d, %s)\n", 100+i, it.name)
			}
		}
	}
	b.WriteString("}\n")
	return b.String()
}

// c16Obs renders the observable int fields of a struct value (no recursion through pointers).
func c16Obs(x string, t *c16Item) string {
	var parts []string
	for _, f := range t.fields {
		switch f.ft {
		case "int", "N":
			parts = append(parts, x+"."+f.name)
		case "E", "A":
			parts = append(parts, x+"."+f.name+".F0")
		case "L", "M":
			parts = append(parts, "len("+x+"."+f.name+")")
		case "P":
			parts = append(parts, x+"."+f.name+" == nil")
		}
	}
	return strings.Join(parts, ", ")
}

type c16Unit struct {
	kw    string
	text  string
	block bool
}

func (s *c16Set) unitTexts() []c16Unit {
	var out []c16Unit
	for _, u := range s.units {
		first := u[0]
		if first.block {
			out = append(out, c16Unit{first.kw, first.text, true})
		} else {
			out = append(out, c16Unit{first.kw, first.text, false})
		}
	}
	out = append(out, c16Unit{"", s.observer(), true})
	return out
}

// c16Render writes the units in the given order; adjacent single specs of the same keyword are
// merged into a parenthesised group with probability 1/2.
func c16Render(units []c16Unit, order []int, rng *rand.Rand) string {
	var b strings.Builder
	i := 0
	for i < len(order) {
		u := units[order[i]]
		if u.block {
			b.WriteString(u.text)
			i++
			continue
		}
		j := i + 1
		for j < len(order) && !units[order[j]].block && units[order[j]].kw == u.kw && rng.Intn(2) == 0 {
			j++
		}
		if j-i == 1 {
			if rng.Intn(4) == 0 {
				fmt.Fprintf(&b, "%s (\n\t%s\n)\n", u.kw, u.text)
			} else {
				fmt.Fprintf(&b, "%s %s\n", u.kw, u.text)
			}
		} else {
			fmt.Fprintf(&b, "%s (\n", u.kw)
			for k := i; k < j; k++ {
				fmt.Fprintf(&b, "\t%s\n", units[order[k]].text)
			}
			b.WriteString(")\n")
		}
		i = j
	}
	return b.String()
}
