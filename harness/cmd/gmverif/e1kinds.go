package main

// basic-kind tables shared by the E1 generators (C01, C02, C03, C34, ...)

import (
	"fmt"
	"math/rand"
	"strconv"
)

type kindInfo struct {
	Name     string
	Class    string // bool int uint float complex string
	Bits     int
	Consts   []string // literals representable as constants of this kind
	VarExtra []string // extra run-time-only operand expressions (may use z, o: zero and one variables of the kind)
}

var allKinds []kindInfo
var kindByName = map[string]*kindInfo{}

func init() {
	sint := func(name string, bits int) kindInfo {
		max := int64(1)<<(uint(bits)-1) - 1
		min := -max - 1
		c := []string{"0", "1", "-1", "2", "3", "-3", "7", "8", "-8", "16",
			strconv.FormatInt(max, 10), strconv.FormatInt(max-1, 10), strconv.FormatInt(min, 10), strconv.FormatInt(min+1, 10),
			strconv.FormatInt(int64(1)<<(uint(bits)-2), 10), strconv.FormatInt(-(int64(1) << (uint(bits) - 2)), 10),
			strconv.FormatInt(int64(1)<<(uint(bits)-2)+1, 10), "5", "-5", "100"}
		return kindInfo{Name: name, Class: "int", Bits: bits, Consts: c}
	}
	uintk := func(name string, bits int) kindInfo {
		var max uint64 = 1<<uint(bits) - 1
		if bits == 64 {
			max = ^uint64(0)
		}
		c := []string{"0", "1", "2", "3", "7", "8", "16", "5", "100",
			strconv.FormatUint(max, 10), strconv.FormatUint(max-1, 10), strconv.FormatUint(uint64(1)<<(uint(bits)-1), 10),
			strconv.FormatUint(uint64(1)<<(uint(bits)-1)-1, 10), strconv.FormatUint(uint64(1)<<(uint(bits)-1)+1, 10),
			strconv.FormatUint(uint64(1)<<(uint(bits)-2), 10)}
		return kindInfo{Name: name, Class: "uint", Bits: bits, Consts: c}
	}
	allKinds = []kindInfo{
		{Name: "bool", Class: "bool", Consts: []string{"true", "false"}},
		sint("int", 64), sint("int8", 8), sint("int16", 16), sint("int32", 32), sint("int64", 64),
		uintk("uint", 64), uintk("uint8", 8), uintk("uint16", 16), uintk("uint32", 32), uintk("uint64", 64), uintk("uintptr", 64),
		{Name: "float32", Class: "float", Bits: 32,
			Consts:   []string{"0", "1", "-1", "0.5", "2", "3", "-2.5", "8", "0.1", "1e10", "-1e-10", "16777216", "16777217", "3.4028234e38", "1e-45", "1.25"},
			VarExtra: []string{"-z", "o/z", "-o/z", "z/z"}},
		{Name: "float64", Class: "float", Bits: 64,
			Consts:   []string{"0", "1", "-1", "0.5", "2", "3", "-2.5", "8", "0.1", "1e10", "-1e-10", "9007199254740992", "9007199254740993", "1.7976931348623157e308", "5e-324", "1.25"},
			VarExtra: []string{"-z", "o/z", "-o/z", "z/z"}},
		{Name: "complex64", Class: "complex", Bits: 64,
			Consts:   []string{"0", "1", "-1", "1i", "(1+2i)", "(0.5-3i)", "2", "(-2.5+0.1i)", "(1e10-1e-10i)"},
			VarExtra: []string{"o/z", "-z", "z/z"}},
		{Name: "complex128", Class: "complex", Bits: 128,
			Consts:   []string{"0", "1", "-1", "1i", "(1+2i)", "(0.5-3i)", "2", "(-2.5+0.1i)", "(1e10-1e-10i)"},
			VarExtra: []string{"o/z", "-z", "z/z"}},
		{Name: "string", Class: "string",
			Consts: []string{`""`, `"a"`, `"ab"`, `"b"`, `"\x00z"`, `"é"`, `"a\xffb"`, `"abcdefghijklmnopqrstuvwxyz"`}},
	}
	for i := range allKinds {
		kindByName[allKinds[i].Name] = &allKinds[i]
	}
}

func (k *kindInfo) isInteger() bool { return k.Class == "int" || k.Class == "uint" }
func (k *kindInfo) isNumeric() bool { return k.Class != "bool" && k.Class != "string" }
func (k *kindInfo) isOrdered() bool { return k.Class != "bool" && k.Class != "complex" }

// randConsts returns n seeded random literals of the kind.
func (k *kindInfo) randConsts(rng *rand.Rand, n int) []string {
	var out []string
	for i := 0; i < n; i++ {
		switch k.Class {
		case "bool":
			out = append(out, []string{"true", "false"}[rng.Intn(2)])
		case "int":
			v := int64(rng.Uint64())
			if k.Bits < 64 {
				v >>= uint(64 - k.Bits)
			}
			if rng.Intn(3) == 0 {
				v >>= uint(rng.Intn(k.Bits))
			}
			out = append(out, strconv.FormatInt(v, 10))
		case "uint":
			v := rng.Uint64()
			if k.Bits < 64 {
				v >>= uint(64 - k.Bits)
			}
			if rng.Intn(3) == 0 {
				v >>= uint(rng.Intn(k.Bits))
			}
			out = append(out, strconv.FormatUint(v, 10))
		case "float":
			m := rng.NormFloat64() * []float64{1, 1e3, 1e-3, 1e15, 1e-15}[rng.Intn(5)]
			if k.Bits == 32 {
				out = append(out, strconv.FormatFloat(float64(float32(m)), 'g', -1, 32))
			} else {
				out = append(out, strconv.FormatFloat(m, 'g', -1, 64))
			}
		case "complex":
			out = append(out, fmt.Sprintf("(%s+%si)", strconv.FormatFloat(float64(float32(rng.NormFloat64()*10)), 'g', -1, 32), strconv.FormatFloat(float64(float32(rng.NormFloat64()*10)), 'g', -1, 32)))
		case "string":
			n := rng.Intn(6)
			b := make([]byte, n)
			for j := range b {
				b[j] = "abAB \x00\xc3\xa9z"[rng.Intn(9)]
			}
			out = append(out, strconv.Quote(string(b)))
		}
	}
	return out
}

// varOperands returns Go source for a slice literal of run-time operand values of the kind,
// assuming variables z (zero) and o (one) of the kind are in scope for numeric kinds.
func (k *kindInfo) varOperands(rng *rand.Rand, nrand int) []string {
	ops := append([]string{}, k.Consts...)
	ops = append(ops, k.VarExtra...)
	ops = append(ops, k.randConsts(rng, nrand)...)
	return ops
}
