package main

// C20 part (b) - generator of macro sets and of programs calling them, and the driver that compares the
// interpreters' MacroExpand1 / MacroExpand / MacroExpandCodewalk with the reference model (c20_model.go).

import (
	"fmt"
	"go/ast"
	"math/rand"
	"os"
	"runtime"
	"strings"
	"sync"

	"github.com/cosmos72/gomacro/ast2"

	"gmverif/internal/fw"
)

const c20RuleB = "(b) seeded random macro sets (3-6 macros, 0-3 parameters; bodies return a parameter, a ~quote constant, a ~quasiquote arrangement of parameters/constants/calls of earlier macros, two results, a []ast.Node, an int, or nothing) and random programs calling them at top level, in function/if/else/for/range/switch/select/closure/labelled/bare-block bodies, as arguments of other macro calls, inside ~quote, and inside ~quasiquote with and without ~unquote/~unquote_splice (nesting <= 4); distinct = distinct (macro set, program) pairs in which the model expands or suppresses at least one macro call; oracle = reference expander (consume argNum following statements, splice results in order, rescan the list until stable, skip ~quote, expand inside ~quasiquote only at depth 0) compared structurally, modulo the same allowed wrappers, with fast and classic MacroExpandCodewalk on the whole program and MacroExpand1/MacroExpand on blocks holding calls"

const (
	c20F1 = "C20-lone-macro-call-in-block-not-expanded"
	c20F2 = "C20-single-statement-expansion-not-rescanned"
	c20F3 = "C20-empty-expansion-of-clause-body-panics"
	c20F4 = "C20-declaration-or-return-result-spliced"
	c20F5 = "C20-expansion-inside-quote-form-dropped"
)

var c20DefectIds = map[int]string{1: c20F1, 2: c20F2, 4: c20F4, 8: c20F5}

// every combination of the defect switches, fewest first
var c20DefectMasks = func() []int {
	var out []int
	for n := 1; n <= 4; n++ {
		for m := 1; m < 16; m++ {
			if c := m&1 + m>>1&1 + m>>2&1 + m>>3&1; c == n {
				out = append(out, m)
			}
		}
	}
	return out
}()

type c20Variant struct {
	flags int
	text  string
	tree  *c20T
}

type c20Case struct {
	Macros []*c20Macro `json:"macros"`
	Progs  []string    `json:"progs"`
	ctx    [][]string
}

type c20Gen struct {
	rng    *rand.Rand
	macros []*c20Macro
	n      int
	ctx    []string
	size   int
}

func (g *c20Gen) id() int { g.n++; return g.n }

// plain returns one macro-free statement
func (g *c20Gen) plain() string {
	n := g.id()
	switch g.rng.Intn(40) % 14 {
	case 12:
		return fmt.Sprintf("return v%d, %d", n, g.rng.Intn(10))
	case 13:
		if g.rng.Intn(2) == 0 {
			return "return"
		}
		return fmt.Sprintf("return k%d()", n)
	case 0, 1, 2:
		return fmt.Sprintf("k%d()", n)
	case 3:
		return fmt.Sprintf("v%d = %d", n, g.rng.Intn(100))
	case 4:
		return fmt.Sprintf("w%d := %d", n, g.rng.Intn(100))
	case 5:
		return fmt.Sprintf("var u%d int", n)
	case 6:
		return fmt.Sprintf("k%d(%d, \"s\")", n, g.rng.Intn(10))
	case 7:
		return fmt.Sprintf("v%d++", n)
	case 8:
		return fmt.Sprintf("(k%d())", n)
	case 9:
		return fmt.Sprintf("v%d = (a%d + 1) * 2", n, n)
	case 10:
		return fmt.Sprintf("{ k%d() }", n)
	default:
		return fmt.Sprintf("p%d.f(x%d)", n, n)
	}
}

func (g *c20Gen) plainNoVar() string {
	for {
		if s := g.plain(); !strings.HasPrefix(s, "var ") {
			return s
		}
	}
}

var c20ParamNames = []string{"a", "b", "c"}

// ---------------------------------------------------------------- macros

func (g *c20Gen) genMacros() []*c20Macro {
	k := 3 + g.rng.Intn(4)
	var ms []*c20Macro
	for i := 0; i < k; i++ {
		mc := &c20Macro{Name: fmt.Sprintf("mac%d", i), Args: g.rng.Intn(4)}
		if i == 0 {
			mc.Args = 0
		}
		g.macroBody(mc, ms)
		ms = append(ms, mc)
	}
	return ms
}

// tmpl builds a flat template item list; calls of earlier macros are complete (followed by their arguments)
func (g *c20Gen) tmpl(nparams int, earlier []*c20Macro, minItems int) []c20It {
	var items []c20It
	simple := func() c20It {
		if nparams > 0 && g.rng.Intn(2) == 0 {
			return c20It{Param: g.rng.Intn(nparams)}
		}
		return c20It{Param: -1, Src: g.plain()}
	}
	target := minItems + g.rng.Intn(3)
	for len(items) < target {
		if len(earlier) > 0 && g.rng.Intn(3) == 0 {
			e := earlier[g.rng.Intn(len(earlier))]
			items = append(items, c20It{Param: -1, Src: e.Name})
			for j := 0; j < e.Args; j++ {
				items = append(items, simple())
			}
			continue
		}
		items = append(items, simple())
	}
	return items
}

func c20TmplSrc(op string, items []c20It) string {
	var parts []string
	for _, it := range items {
		if it.Param >= 0 {
			parts = append(parts, "~,"+c20ParamNames[it.Param])
		} else {
			parts = append(parts, it.Src)
		}
	}
	return op + "{" + strings.Join(parts, "; ") + "}"
}

func (g *c20Gen) macroBody(mc *c20Macro, earlier []*c20Macro) {
	typ := "ast.Node"
	if g.rng.Intn(3) == 0 {
		typ = "interface{}"
	}
	params := ""
	if mc.Args > 0 {
		params = strings.Join(c20ParamNames[:mc.Args], ", ") + " " + typ
	}
	// a single value: parameter, or ~quote{one constant / one 0-argument call}
	value := func() (c20Val, string) {
		if mc.Args > 0 && g.rng.Intn(2) == 0 {
			p := g.rng.Intn(mc.Args)
			return c20Val{Param: p}, c20ParamNames[p]
		}
		src := g.plainNoVar()
		if g.rng.Intn(3) == 0 {
			var zero []*c20Macro
			for _, e := range earlier {
				if e.Args == 0 {
					zero = append(zero, e)
				}
			}
			if len(zero) > 0 {
				src = zero[g.rng.Intn(len(zero))].Name
			}
		}
		it := []c20It{{Param: -1, Src: src}}
		return c20Val{Param: -1, Items: it}, c20TmplSrc("~quote", it)
	}
	styles := []string{"quote", "quote", "multi", "slice", "nothing", "int"}
	if mc.Args > 0 {
		styles = append(styles, "param", "param", "qq", "qq", "qq", "qq", "multi", "slice")
	}
	mc.Style = styles[g.rng.Intn(len(styles))]
	result, body := typ, ""
	switch mc.Style {
	case "param":
		p := g.rng.Intn(mc.Args)
		mc.Vals = []c20Val{{Param: p}}
		body = "return " + c20ParamNames[p]
	case "quote":
		items := g.tmpl(0, earlier, 1)
		if len(items) == 1 && strings.HasPrefix(items[0].Src, "var ") {
			// ~quote{var x T} evaluates to the *ast.ValueSpec, which is not a statement (C21's subject)
			items[0].Src = g.plainNoVar()
		}
		mc.Vals = []c20Val{{Param: -1, Items: items}}
		body = "return " + c20TmplSrc("~quote", items)
	case "qq":
		items := g.tmpl(mc.Args, earlier, 2)
		mc.Vals = []c20Val{{Param: -1, Items: items}}
		body = "return " + c20TmplSrc("~quasiquote", items)
	case "multi":
		v1, s1 := value()
		v2, s2 := value()
		mc.Vals = []c20Val{v1, v2}
		result = "(" + typ + ", " + typ + ")"
		body = "return " + s1 + ", " + s2
	case "slice":
		typ = "ast.Node"
		if mc.Args > 0 {
			params = strings.Join(c20ParamNames[:mc.Args], ", ") + " " + typ
		}
		n := 1 + g.rng.Intn(3)
		var srcs []string
		for i := 0; i < n; i++ {
			v, s := value()
			mc.Vals = append(mc.Vals, v)
			srcs = append(srcs, s)
		}
		result = "[]ast.Node"
		body = "return []ast.Node{" + strings.Join(srcs, ", ") + "}"
	case "nothing":
		result = ""
	case "int":
		v := fmt.Sprint(g.rng.Intn(1000))
		mc.Vals = []c20Val{{Param: -1, Int: v}}
		result = "interface{}"
		body = "return " + v
	}
	mc.Decl = fmt.Sprintf("macro %s(%s) %s { %s }", mc.Name, params, result, body)
}

// ---------------------------------------------------------------- programs

type c20Ctx struct {
	depth int
	qq    int  // enclosing ~quasiquote minus ~unquote
	inert bool // inside a ~quote met at qq == 0: nothing below is expanded
	where string
	top   bool // the statement is emitted directly into the top-level list
}

func (g *c20Gen) note(c c20Ctx, mc *c20Macro) {
	state := "live"
	switch {
	case c.inert:
		state = "in-quote"
	case c.qq > 0:
		state = "in-quasiquote"
	}
	g.ctx = append(g.ctx, fmt.Sprintf("%s|%s|args=%d", c.where, state, mc.Args))
}

func (g *c20Gen) call(c c20Ctx) []string {
	mc := g.macros[g.rng.Intn(len(g.macros))]
	g.note(c, mc)
	out := []string{mc.Name}
	for j := 0; j < mc.Args; j++ {
		out = append(out, g.arg(c))
	}
	return out
}

// arg is exactly one statement; never the bare name of a macro that takes arguments
func (g *c20Gen) arg(c c20Ctx) string {
	c.depth++
	c.where = "macro-arg"
	switch r := g.rng.Intn(10); {
	case r < 4 || c.depth > 4:
		return g.plain()
	case r < 6:
		inner := c
		inner.top = false
		return g.block(inner, -1)
	case r < 7:
		var zero []*c20Macro
		for _, e := range g.macros {
			if e.Args == 0 {
				zero = append(zero, e)
			}
		}
		mc := zero[g.rng.Intn(len(zero))]
		g.note(c, mc)
		return mc.Name
	case r < 9:
		return g.compound(c)
	default:
		return g.quoted(c)
	}
}

func (g *c20Gen) block(c c20Ctx, n int) string { return "{ " + g.listSrc(c, n) + " }" }

func (g *c20Gen) listSrc(c c20Ctx, n int) string {
	sep := "\n"
	if g.rng.Intn(3) == 0 {
		sep = "; "
	}
	return strings.Join(g.list(c, n), sep)
}

// list returns the statements of one list; n < 0: random length
func (g *c20Gen) list(c c20Ctx, n int) []string {
	if n < 0 {
		switch r := g.rng.Intn(10); {
		case r < 1:
			n = 0
		case r < 4:
			n = 1
		default:
			n = 2 + g.rng.Intn(3)
		}
	}
	var out []string
	for i := 0; i < n; i++ {
		g.size++
		switch r := g.rng.Intn(100); {
		case g.size > 70 || r < 30:
			out = append(out, g.plain())
		case r < 62:
			out = append(out, g.call(c)...)
		case c.qq > 0 && r < 75 && c.depth < 5:
			out = append(out, g.unquote(c))
		case r < 85 && c.depth < 4:
			out = append(out, g.compound(c))
		case r < 97 && c.depth < 4:
			out = append(out, g.quoted(c))
		default:
			out = append(out, g.plain())
		}
	}
	return out
}

func (g *c20Gen) sub(c c20Ctx, where string) c20Ctx {
	c.top = false
	c.depth++
	c.where = where
	return c
}

func (g *c20Gen) compound(c c20Ctx) string {
	n := g.id()
	b := func(where string) string { return g.block(g.sub(c, where), -1) }
	l := func(where string) string { return g.listSrc(g.sub(c, where), -1) }
	switch g.rng.Intn(17) {
	case 0, 1:
		return fmt.Sprintf("if c%d %s", n, b("if-body"))
	case 2, 3:
		return fmt.Sprintf("if c%d %s else %s", n, b("if-body"), b("else-body"))
	case 4:
		return fmt.Sprintf("if c%d %s else if d%d %s else %s", n, b("if-body"), n, b("if-body"), b("else-body"))
	case 5:
		return fmt.Sprintf("for i%d := 0; i%d < 3; i%d++ %s", n, n, n, b("for-body"))
	case 6:
		return fmt.Sprintf("for %s", b("for-body"))
	case 7:
		return fmt.Sprintf("for _, e%d := range xs%d %s", n, n, b("range-body"))
	case 8, 9:
		return fmt.Sprintf("switch v%d {\ncase 1:\n%s\ncase 2, 3:\n%s\ndefault:\n%s\n}", n, l("case-body"), l("case-body"), l("case-body"))
	case 10:
		return fmt.Sprintf("switch t%d := v%d.(type) {\ncase int:\n%s\n}", n, n, l("case-body"))
	case 11:
		return fmt.Sprintf("select {\ncase <-ch%d:\n%s\ndefault:\n%s\n}", n, l("comm-body"), l("comm-body"))
	case 12:
		if c.top {
			// a top-level `func` always starts a declaration for the fork parser
			return fmt.Sprintf("(func() %s)()", b("closure-body"))
		}
		return fmt.Sprintf("func() %s()", b("closure-body"))
	case 13:
		return fmt.Sprintf("f%d := func(n int) int %s", n, g.block(g.sub(c, "closure-body"), -1))
	case 14:
		return b("bare-block")
	case 15:
		return fmt.Sprintf("L%d: %s", n, b("labelled-block"))
	default:
		return fmt.Sprintf("defer func() %s()", b("closure-body"))
	}
}

// quoted returns a statement holding a ~quote / ~quasiquote form
func (g *c20Gen) quoted(c c20Ctx) string {
	n := g.id()
	var form string
	if g.rng.Intn(3) == 0 {
		q := g.sub(c, "quote-body")
		if q.qq == 0 {
			q.inert = true
		}
		form = "~quote" + g.block(q, -1)
	} else {
		q := g.sub(c, "quasiquote-body")
		q.qq++
		form = "~quasiquote" + g.block(q, 2+g.rng.Intn(3))
	}
	switch g.rng.Intn(4) {
	case 0:
		return fmt.Sprintf("q%d := %s", n, form)
	case 1:
		return fmt.Sprintf("k%d(%s)", n, form)
	default:
		return form
	}
}

func (g *c20Gen) unquote(c c20Ctx) string {
	u := g.sub(c, "unquote-body")
	u.qq--
	op := "~unquote"
	if g.rng.Intn(3) == 0 {
		op = "~unquote_splice"
	}
	if u.qq == 0 && g.rng.Intn(6) == 0 {
		// the body shrinks to one quote-family form once its macro call is expanded
		for _, mc := range g.macros {
			if mc.Style == "nothing" {
				g.note(u, mc)
				body := []string{mc.Name}
				for j := 0; j < mc.Args; j++ {
					body = append(body, g.plain())
				}
				q := g.sub(u, "quasiquote-body")
				q.qq++
				body = append(body, "~quasiquote"+g.block(q, 1+g.rng.Intn(2)))
				return op + "{ " + strings.Join(body, "; ") + " }"
			}
		}
	}
	if u.qq > 0 && g.rng.Intn(2) == 0 {
		// double unquote reaching one level further out
		u.qq--
		return op + "{ ~unquote" + g.block(u, -1) + " }"
	}
	return op + g.block(u, -1)
}

func (g *c20Gen) program() (string, []string) {
	g.ctx, g.size = nil, 0
	var parts []string
	top := c20Ctx{where: "top-level", top: true}
	n := 1 + g.rng.Intn(4)
	for i := 0; i < n; i++ {
		switch r := g.rng.Intn(10); {
		case r < 3:
			parts = append(parts, fmt.Sprintf("func fn%d(x int) %s", g.id(), g.block(g.sub(top, "func-body"), -1)))
		case r < 4:
			parts = append(parts, fmt.Sprintf("var g%d = func() %s", g.id(), g.block(g.sub(top, "closure-body"), -1)))
		default:
			parts = append(parts, g.list(top, 1+g.rng.Intn(3))...)
		}
	}
	return strings.Join(parts, "\n"), g.ctx
}

func c20GenCase(rng *rand.Rand, progs int) *c20Case {
	g := &c20Gen{rng: rng}
	cs := &c20Case{}
	g.macros = g.genMacros()
	cs.Macros = g.macros
	for i := 0; i < progs; i++ {
		src, ctx := g.program()
		cs.Progs = append(cs.Progs, src)
		cs.ctx = append(cs.ctx, ctx)
	}
	return cs
}

// ---------------------------------------------------------------- driver

type c20Entry struct {
	name string // codewalk | expand | expand1
	sub  int    // -1 whole program, else index of the block
}

func (w *c20Worker) evalBoth(src string) string {
	var err string
	func() {
		defer c20Recover(&err)
		w.ip.f.Eval(src)
	}()
	if err != "" {
		return "fast: " + err
	}
	func() {
		defer c20Recover(&err)
		w.ip.c.Eval(src)
	}()
	if err != "" {
		return "classic: " + err
	}
	return ""
}

// setup defines the macros of a case in fresh interpreters and parses their constant template items
func (w *c20Worker) setup(cs *c20Case) string {
	w.ip = c20NewInterps()
	if e := w.evalBoth(c20AstImport); e != "" {
		return c20AstImport + ": " + e
	}
	for _, mc := range cs.Macros {
		if e := w.evalBoth(mc.Decl); e != "" {
			return mc.Decl + ": " + e
		}
		mc.consts = map[string][]*c20T{}
		for _, v := range mc.Vals {
			for _, it := range v.Items {
				if it.Param < 0 {
					// parsed as the body of a block, like the ~quote{..} it is part of (keeps DeclStmt wrappers)
					nodes, e := w.ip.parse([]byte("{ " + it.Src + " }"))
					if e != "" || len(nodes) != 1 {
						return "template item " + it.Src + ": " + e
					}
					b := c20FromNodes(nodes).C[0]
					if !b.isBlock() {
						return "template item " + it.Src + ": not a block"
					}
					mc.consts[it.Src] = b.blockList().C
				}
			}
		}
	}
	return ""
}

type c20Real struct {
	interp, entry string
	out           *c20T
	err           string
}

func c20Try(f func() ast2.Ast) (out *c20T, err string) {
	defer c20Recover(&err)
	return c20AstOut(f()), ""
}

func c20Blocks(nodes []ast.Node) []*ast.BlockStmt {
	var out []*ast.BlockStmt
	for _, n := range nodes {
		ast.Inspect(n, func(x ast.Node) bool {
			if b, ok := x.(*ast.BlockStmt); ok && b != nil {
				out = append(out, b)
			}
			return true
		})
	}
	return out
}

// runProg checks one program; verbose prints every comparison (replay)
func (w *c20Worker) runProg(cs *c20Case, pi int, verbose bool) {
	r := w.r
	src := cs.Progs[pi]
	nodes, e := w.ip.parse([]byte(src))
	if e != "" || len(nodes) == 0 {
		r.Count("b_generator_programs_not_parsed", 1)
		if verbose || os.Getenv("VERIF_VERBOSE") != "" {
			fmt.Printf("  program does not parse: %s\n%s\n", e, src)
		}
		return
	}
	nodesC, e := w.ip.parseClassic([]byte(src))
	if e != "" {
		r.Count("b_generator_programs_not_parsed", 1)
		return
	}
	input := c20FromNodes(nodes)
	if ic := c20FromNodes(nodesC); ic.String() != input.String() {
		r.Count("b_parsers_disagree", 1)
		return
	}
	inputText := input.String()
	r.Count("b_programs", 1)

	type job struct {
		entry  string
		form   *c20T
		run    func(m *c20Model) *c20T
		reals  []func() (string, *c20T, string)
		isProg bool
	}
	var jobs []job
	fc, ce := w.ip.f.Comp, w.ip.c.Env
	jobs = append(jobs, job{entry: "codewalk(program)", form: input, isProg: true,
		run: func(m *c20Model) *c20T { t, _ := m.walk(input, 0, false); return t },
		reals: []func() (string, *c20T, string){
			func() (string, *c20T, string) {
				o, e := c20Try(func() ast2.Ast { f, _ := fc.MacroExpandCodewalk(ast2.NodeSlice{X: nodes}); return f })
				return "fast", o, e
			},
			func() (string, *c20T, string) {
				o, e := c20Try(func() ast2.Ast { f, _ := ce.MacroExpandAstCodewalk(ast2.NodeSlice{X: nodesC}); return f })
				return "classic", o, e
			},
		}})
	jobs = append(jobs, job{entry: "expand1(program)", form: input,
		run: func(m *c20Model) *c20T { t, _ := m.expand(input, 1, false); return t },
		reals: []func() (string, *c20T, string){func() (string, *c20T, string) {
			o, e := c20Try(func() ast2.Ast { f, _ := fc.MacroExpand1(ast2.NodeSlice{X: nodes}); return f })
			return "fast", o, e
		}}})
	jobs = append(jobs, job{entry: "expand(program)", form: input,
		run: func(m *c20Model) *c20T { t, _ := m.expand(input, -1, false); return t },
		reals: []func() (string, *c20T, string){func() (string, *c20T, string) {
			o, e := c20Try(func() ast2.Ast { f, _ := fc.MacroExpand(ast2.NodeSlice{X: nodes}); return f })
			return "fast", o, e
		}}})
	// blocks that directly hold a macro call: MacroExpand1 / MacroExpand / Codewalk on the block itself
	probe := c20NewModel(cs.Macros, 0)
	blocksF, blocksC := c20Blocks(nodes), c20Blocks(nodesC)
	nsub := 0
	for bi, b := range blocksF {
		if nsub >= 3 || len(blocksC) != len(blocksF) {
			break
		}
		bt := c20FromNode(b)
		if _, exp := probe.pass(bt.blockList().C, false); !exp || probe.shortArgs {
			probe.shortArgs = false
			continue
		}
		nsub++
		b, bc, bt := b, blocksC[bi], bt
		mk := func(name string, run func(m *c20Model) *c20T, ff, cf func() ast2.Ast) {
			jobs = append(jobs, job{entry: fmt.Sprintf("%s(block %d)", name, bi), form: bt, run: run,
				reals: []func() (string, *c20T, string){
					func() (string, *c20T, string) { o, e := c20Try(ff); return "fast", o, e },
					func() (string, *c20T, string) { o, e := c20Try(cf); return "classic", o, e },
				}})
		}
		mk("expand1", func(m *c20Model) *c20T { t, _ := m.expand(bt, 1, false); return t },
			func() ast2.Ast { n, _ := fc.MacroExpandNode1(b); return ast2.ToAst(n) },
			func() ast2.Ast { n, _ := ce.MacroExpand1(bc); return ast2.ToAst(n) })
		mk("expand", func(m *c20Model) *c20T { t, _ := m.expand(bt, -1, false); return t },
			func() ast2.Ast { n, _ := fc.MacroExpandNode(b); return ast2.ToAst(n) },
			func() ast2.Ast { n, _ := ce.MacroExpand(bc); return ast2.ToAst(n) })
		mk("codewalk", func(m *c20Model) *c20T { t, _ := m.walk(bt, 0, false); return t },
			func() ast2.Ast { n, _ := fc.MacroExpandNodeCodewalk(b); return ast2.ToAst(n) },
			func() ast2.Ast { n, _ := ce.MacroExpandCodewalk(bc); return ast2.ToAst(n) })
	}

	for _, j := range jobs {
		ref := c20NewModel(cs.Macros, 0)
		want := c20Canon(j.run(ref), c20sNode).String()
		if ref.shortArgs {
			r.Count("b_generator_incomplete_calls", 1)
			if verbose {
				fmt.Printf("  generator: macro call without enough arguments in\n%s\n", src)
			}
			return
		}
		if ref.negDepth {
			// a block taken from inside a ~quasiquote and walked on its own: ~unquote outside any ~quasiquote
			r.Count("b_block_walks_skipped_unquote_outside_quasiquote", 1)
			continue
		}
		if j.isProg {
			w.coverB(cs, pi, ref, inputText)
		}
		var variants []c20Variant // computed on demand
		for _, real := range j.reals {
			interp, out, err := real()
			r.Eval(1)
			r.Cover("b_entry", strings.SplitN(j.entry, "(", 2)[0]+"/"+interp)
			got := ""
			if err == "" {
				got = c20Canon(out, c20sNode).String()
			}
			if verbose {
				fmt.Printf("--- %s %s\ninput: %s\nwant:  %s\ngot:   %s %s\n", interp, j.entry, j.form.String(), want, got, err)
			}
			if err == "" && got == want {
				continue
			}
			rep := c20Replay{Part: "b", Interp: interp, Entry: j.entry, Want: want, Got: got + err,
				Case: &c20Case{Macros: cs.Macros, Progs: []string{src}}}
			if err != "" {
				if strings.Contains(err, "unimplemented conversion from") && strings.Contains(err, "<ast2.EmptyStmt> to []ast.Stmt") {
					// F3, possibly reached only through another known defect (e.g. a spliced empty `return`)
					mask := -1
					for _, fl := range append([]int{0}, c20DefectMasks...) {
						m := c20NewModel(cs.Macros, fl)
						j.run(m)
						if m.emptyClause {
							mask = fl
							break
						}
					}
					if mask >= 0 {
						r.Count("b_comparisons_matching_model_with_defect_"+c20F3, 1)
						what := fmt.Sprintf("%s %s panics when every statement of a case/select clause body is a macro call expanding to nothing: %s; macros: %s; program: %s", interp, j.entry, err, c20Decls(cs), c20Clip(src, 300))
						r.Known(c20F3, rep, what)
						for bit, id := range c20DefectIds {
							if mask&bit != 0 {
								r.Known(id, rep, what)
							}
						}
						continue
					}
				}
				r.Violation("b-panic-"+interp, rep, fmt.Sprintf("%s %s panics: %s; macros: %s; program: %s", interp, j.entry, err, c20Decls(cs), c20Clip(src, 400)))
				continue
			}
			if variants == nil {
				// the reference with every combination of the known defects switched on, fewest first
				for _, fl := range c20DefectMasks {
					m := c20NewModel(cs.Macros, fl)
					vt := c20Canon(j.run(m), c20sNode)
					variants = append(variants, c20Variant{fl, vt.String(), vt})
				}
			}
			what := fmt.Sprintf("%s %s differs from the reference expander; macros: %s; program: %s; want %s; got %s", interp, j.entry, c20Decls(cs), c20Clip(src, 400), c20Clip(want, 400), c20Clip(got, 400))
			matched := 0
			if verbose {
				for _, v := range variants {
					at, x, y := c20FirstDiff(v.tree, c20Canon(out, c20sNode), "")
					fmt.Printf("model+defects %d: first difference at %s: model %s real %s\n", v.flags, at, x, y)
				}
			}
			for _, v := range variants {
				if v.text == got {
					matched = v.flags
					break
				}
			}
			for bit, id := range c20DefectIds {
				if matched&bit != 0 {
					r.Count("b_comparisons_matching_model_with_defect_"+id, 1)
				}
			}
			if matched == 0 {
				r.Violation("b-differs-"+interp+"-"+strings.SplitN(j.entry, "(", 2)[0], rep, what)
				continue
			}
			for bit, id := range c20DefectIds {
				if matched&bit != 0 {
					r.Known(id, rep, what)
				}
			}
		}
	}
}

func c20Decls(cs *c20Case) string {
	var d []string
	for _, m := range cs.Macros {
		d = append(d, m.Decl)
	}
	return strings.Join(d, " ;; ")
}

// coverB records what the reference did on one whole program
func (w *c20Worker) coverB(cs *c20Case, pi int, ref *c20Model, inputText string) {
	r := w.r
	if ref.expanded > 0 || ref.skippedQuote > 0 {
		r.Distinct("b|" + c20Decls(cs) + "|" + inputText)
	} else {
		r.Count("b_programs_trivial", 1)
	}
	r.Count("b_model_calls_expanded", int64(ref.expanded))
	r.Count("b_model_calls_left_inside_quote_or_quasiquote", int64(ref.skippedQuote))
	r.Count("b_model_calls_expanded_under_unquote", int64(ref.underUnquote))
	r.Count("b_model_lone_call_blocks", int64(ref.loneCalls))
	r.Count("b_model_single_statement_results_rescanned", int64(ref.singleResult))
	r.Cover("b_rescans_needed", fmt.Sprint(ref.maxPasses))
	for _, mc := range cs.Macros {
		if n := ref.byMacro[mc.Name]; n > 0 {
			for i := 0; i < n; i++ {
				r.Cover("b_expanded_args_x_style", fmt.Sprintf("%d/%s", mc.Args, mc.Style))
			}
		}
	}
	if pi < len(cs.ctx) {
		for _, c := range cs.ctx[pi] {
			r.Cover("b_call_sites", c)
		}
	}
	if ref.expanded >= 3 && ref.skippedQuote > 0 && ref.underUnquote > 0 && len(cs.Progs[pi]) < 600 && (c20SampleSlot("b-1") || c20SampleSlot("b-2")) {
		r.Sample(map[string]interface{}{"part": "b", "macros": c20Decls(cs), "program": cs.Progs[pi],
			"model_expanded": ref.expanded, "model_left_quoted": ref.skippedQuote})
	}
}

func c20PartB(r *fw.Run) {
	const streams = 32 // fixed, so the case list does not depend on the machine
	casesPer := r.Pick(12, 150)
	progsPer := 8
	var wg sync.WaitGroup
	sem := make(chan struct{}, runtime.NumCPU())
	for s := 0; s < streams; s++ {
		wg.Add(1)
		go func(s int) {
			defer wg.Done()
			sem <- struct{}{}
			defer func() { <-sem }()
			rng := r.Rng(fmt.Sprintf("b-%d", s))
			w := c20NewWorker(r)
			for i := 0; i < casesPer; i++ {
				cs := c20GenCase(rng, progsPer)
				if e := w.setup(cs); e != "" {
					r.Count("b_generator_macro_sets_rejected", 1)
					if os.Getenv("VERIF_VERBOSE") != "" {
						fmt.Printf("  macro set rejected: %s\n", c20Clip(e, 300))
					}
					continue
				}
				r.Count("b_macro_sets", 1)
				for pi := range cs.Progs {
					w.runProg(cs, pi, false)
				}
			}
		}(s)
	}
	wg.Wait()
	bad := r.Counter("b_generator_programs_not_parsed") + r.Counter("b_generator_incomplete_calls") + r.Counter("b_parsers_disagree")
	if progs := r.Counter("b_programs"); progs < int64(streams*casesPer*progsPer/2) || bad*10 > progs {
		r.Inconclusive(fmt.Sprintf("part (b) generator problems: %d programs checked, %d rejected, %d macro sets rejected", progs, bad, r.Counter("b_generator_macro_sets_rejected")))
	}
}

func c20ReplayB(r *fw.Run, rep *c20Replay) {
	w := c20NewWorker(r)
	if rep.Case == nil {
		return
	}
	if e := w.setup(rep.Case); e != "" {
		fmt.Println("setup failed:", e)
		return
	}
	for _, m := range rep.Case.Macros {
		fmt.Println(m.Decl)
	}
	for pi, p := range rep.Case.Progs {
		fmt.Printf("=== program %d\n%s\n", pi, p)
		w.runProg(rep.Case, pi, true)
	}
}
