package main

// C12 probe programs. Each probe is ordinary Go source that defines `func P()` (plus helpers whose
// names start with "p"); c12Instrument puts a call of the injected compiled hook hk() in front of
// every statement of every block (and at the end of every block that does not end in a terminating
// statement), so that "the k-th hook call" enumerates every point between two statements of the
// whole dynamic execution, including deferred calls, callbacks from compiled code and the time
// while a panic of the probe itself is being handled.
//
// Rules for probes (they keep the oracle sound):
//   * goroutine-free, deterministic, no map iteration over more than one key;
//   * they only write names starting with "p" / "P" (the battery only uses names starting with "b");
//   * every probe resets its own package-level state at the start of P, so that the k-th hook call of
//     the (k)th faulted run is the same program point as in the counting run;
//   * a probe that recovers a panic does so for ANY value (it cannot tell the injected one from its own).

import (
	"bytes"
	"fmt"
	"go/ast"
	"go/parser"
	"go/printer"
	"go/token"
	"strings"
)

type c12Probe struct {
	Name    string
	Tags    []string // feature tags, for the coverage table
	Imports []string
	Src     string // definitions; must define func P()
	Raw     bool   // true: Src already contains its hk() calls (gomacro-only syntax)
	Quick   bool   // part of the quick tier
	Invoke  string // the top-level input that runs the probe; default "P()"
}

func c12HookCall(name string) ast.Stmt {
	return &ast.ExprStmt{X: &ast.CallExpr{Fun: ast.NewIdent(name)}}
}

func c12Terminating(s ast.Stmt) bool {
	switch s := s.(type) {
	case *ast.ReturnStmt, *ast.BranchStmt:
		return true
	case *ast.ExprStmt:
		if call, ok := s.X.(*ast.CallExpr); ok {
			if id, ok := call.Fun.(*ast.Ident); ok && id.Name == "panic" {
				return true
			}
		}
	case *ast.LabeledStmt:
		return c12Terminating(s.Stmt)
	}
	return false
}

func c12InstrumentList(list []ast.Stmt) []ast.Stmt {
	out := make([]ast.Stmt, 0, 2*len(list)+1)
	for _, s := range list {
		out = append(out, c12HookCall("hk"), s)
	}
	if len(list) == 0 || !c12Terminating(list[len(list)-1]) {
		out = append(out, c12HookCall("hk"))
	}
	return out
}

// c12EndWithReturn appends an explicit return to a result-less function body that can fall off its end.
func c12EndWithReturn(results *ast.FieldList, body *ast.BlockStmt) {
	if body == nil || (results != nil && len(results.List) > 0) {
		return
	}
	if n := len(body.List); n == 0 || !c12Terminating(body.List[n-1]) {
		body.List = append(body.List, &ast.ReturnStmt{})
	}
}

// c12Instrument inserts hk() between all statements of src (a list of top-level declarations).
// explicitReturn additionally ends every result-less function with a return statement: single-stepping a
// function that falls off its end never terminates in this gomacro (see the final report), so probes that
// run in single-step mode must not do that.
func c12Instrument(src string, explicitReturn bool) (string, error) {
	fset := token.NewFileSet()
	f, err := parser.ParseFile(fset, "probe.go", "package p\n"+src, 0)
	if err != nil {
		return "", err
	}
	skip := map[*ast.BlockStmt]bool{}
	ast.Inspect(f, func(n ast.Node) bool {
		switch n := n.(type) {
		case *ast.SwitchStmt:
			skip[n.Body] = true
		case *ast.TypeSwitchStmt:
			skip[n.Body] = true
		case *ast.SelectStmt:
			skip[n.Body] = true
		case *ast.FuncDecl:
			if explicitReturn {
				c12EndWithReturn(n.Type.Results, n.Body)
			}
		case *ast.FuncLit:
			if explicitReturn {
				c12EndWithReturn(n.Type.Results, n.Body)
			}
		case *ast.BlockStmt:
			if !skip[n] { // the body of a switch/select holds clauses, not statements
				n.List = c12InstrumentList(n.List)
			}
		case *ast.CaseClause:
			n.Body = c12InstrumentList(n.Body)
		case *ast.CommClause:
			n.Body = c12InstrumentList(n.Body)
		}
		return true
	})
	var buf bytes.Buffer
	for _, d := range f.Decls {
		// print declaration by declaration: positions of inserted nodes are 0, the printer copes
		if err := printer.Fprint(&buf, token.NewFileSet(), d); err != nil {
			return "", err
		}
		buf.WriteString("\n")
	}
	return buf.String(), nil
}

// c12ProbeSource returns the full text loaded into an interpreter for the probe.
func c12ProbeSource(p *c12Probe, explicitReturn bool) (string, error) {
	var b strings.Builder
	for _, im := range p.Imports {
		fmt.Fprintf(&b, "import %q\n", im)
	}
	src := p.Src
	if !p.Raw {
		s, err := c12Instrument(src, explicitReturn)
		if err != nil {
			return "", fmt.Errorf("probe %s: %v", p.Name, err)
		}
		src = s
	}
	b.WriteString(src)
	return b.String(), nil
}

func c12FindProbe(list []c12Probe, name string) *c12Probe {
	for i := range list {
		if list[i].Name == name {
			return &list[i]
		}
	}
	return nil
}

var c12Probes = []c12Probe{
	{Name: "seq", Tags: []string{"straight-line"}, Src: `
var pA, pB int
var pS string
func P() {
	pA, pB, pS = 0, 0, ""
	a := 1
	b := a + 2
	pA = a * b
	var c [3]int
	c[1] = pA
	s := []int{1, 2, 3}
	s = append(s, c[1])
	m := map[string]int{"x": 1}
	m["y"] = len(s)
	pB = m["x"] + m["y"]
	pS = "done"
}`},
	{Name: "forloop", Quick: true, Tags: []string{"loop", "break", "continue"}, Src: `
var pSum int
func P() {
	pSum = 0
	for i := 0; i < 6; i++ {
		if i == 1 {
			continue
		}
		if i == 5 {
			break
		}
		pSum += i
	}
	j := 0
	for j < 3 {
		j++
	}
	for {
		j--
		if j < 0 {
			break
		}
	}
}`},
	{Name: "nestedfor", Tags: []string{"loop", "labels"}, Src: `
var pCnt int
func P() {
	pCnt = 0
outer:
	for i := 0; i < 4; i++ {
		for j := 0; j < 4; j++ {
			if j == 2 {
				continue outer
			}
			if i == 3 {
				break outer
			}
			pCnt += i*10 + j
		}
	}
}`},
	{Name: "ranges", Tags: []string{"loop", "range"}, Src: `
var pR string
func P() {
	pR = ""
	for i, v := range []int{5, 6, 7} {
		pR += string(rune('a' + i + v))
	}
	for k, v := range map[string]int{"k": 1} {
		pR += k
		_ = v
	}
	for _, c := range "héy" {
		pR += string(c)
	}
	var arr [3]bool
	for i := range arr {
		arr[i] = true
	}
	ch := make(chan int, 3)
	ch <- 1
	ch <- 2
	close(ch)
	for v := range ch {
		pR += string(rune('0' + v))
	}
}`},
	{Name: "switches", Tags: []string{"switch", "typeswitch", "fallthrough"}, Src: `
var pW string
func pKind(v interface{}) string {
	switch x := v.(type) {
	case int:
		return "int"
	case string:
		return "string:" + x
	case nil:
		return "nil"
	default:
		return "other"
	}
}
func P() {
	pW = ""
	for i := 0; i < 4; i++ {
		switch i {
		case 0:
			pW += "zero"
			fallthrough
		case 1:
			pW += "one"
		case 2, 3:
			pW += "many"
		default:
			pW += "?"
		}
		switch {
		case i > 2:
			pW += ">"
		}
	}
	pW += pKind(1) + pKind("s") + pKind(nil) + pKind(1.5)
}`},
	{Name: "calls", Quick: true, Tags: []string{"nested-calls", "multi-value"}, Src: `
var pOut int
func pAdd(a, b int) int {
	c := a + b
	return c
}
func pTwo(a int) (int, string) {
	x := pAdd(a, 1)
	return x, "t"
}
func pPair(a int) (int, int) {
	return a, a * 2
}
func pThree(a int) int {
	v, s := pTwo(a)
	w := pAdd(v, len(s))
	return pAdd(w, pAdd(1, 2))
}
func pVar(xs ...int) int {
	t := 0
	for _, x := range xs {
		t += x
	}
	return t
}
func P() {
	pOut = 0
	pOut = pThree(2)
	pOut += pVar(1, 2, 3)
	pOut += pVar()
	pOut += pAdd(pPair(4))
}`},
	{Name: "recursion", Tags: []string{"recursion"}, Src: `
var pFib int
func pfib(n int) int {
	if n < 2 {
		return n
	}
	a := pfib(n - 1)
	b := pfib(n - 2)
	return a + b
}
func P() {
	pFib = 0
	pFib = pfib(5)
}`},
	{Name: "closures", Quick: true, Tags: []string{"closures", "captured-loop-var"}, Src: `
var pC int
func pMk(start int) (func() int, func(int)) {
	c := start
	inc := func() int {
		c++
		return c
	}
	add := func(d int) {
		c += d
	}
	return inc, add
}
func P() {
	pC = 0
	inc, add := pMk(10)
	inc()
	add(5)
	pC = inc()
	var fs []func() int
	for i := 0; i < 3; i++ {
		j := i
		fs = append(fs, func() int {
			j += 10
			return j
		})
	}
	for _, f := range fs {
		pC += f()
	}
}`},
	{Name: "defer1", Quick: true, Tags: []string{"defer"}, Src: `
var pD string
func pDef() {
	defer func() {
		pD += "a"
	}()
	defer func() {
		pD += "b"
	}()
	pD += "0"
	defer func(s string) {
		pD += s
	}("c")
	pD += "1"
}
func P() {
	pD = ""
	pDef()
	pD += "|"
	pDef()
}`},
	{Name: "deferloop", Tags: []string{"defer", "loop"}, Src: `
var pL string
func pLoop() (res string) {
	for i := 0; i < 3; i++ {
		defer func(n int) {
			res += string(rune('0' + n))
		}(i)
	}
	return "r"
}
func P() {
	pL = ""
	pL = pLoop()
}`},
	{Name: "deferrecover", Quick: true, Tags: []string{"defer", "recover", "own-panic"}, Src: `
var pRec string
func pSafe(f func()) (msg string) {
	defer func() {
		if r := recover(); r != nil {
			msg = "recovered"
		}
	}()
	f()
	return "fine"
}
func P() {
	pRec = ""
	pRec += pSafe(func() {
		pRec += "x"
	})
	pRec += pSafe(func() {
		panic("probe:own")
	})
	pRec += pSafe(func() {
		var m map[string]int
		m["a"] = 1
	})
}`},
	{Name: "repanic", Quick: true, Tags: []string{"defer", "recover", "re-panic", "own-panic"}, Src: `
var pRp string
func pInner() {
	defer func() {
		if r := recover(); r != nil {
			pRp += "i"
			panic("probe:re")
		}
	}()
	panic("probe:first")
}
func pOuter() (out string) {
	defer func() {
		r := recover()
		if r != nil {
			out = "outer-recovered"
		}
	}()
	pInner()
	return "not-reached"
}
func P() {
	pRp = ""
	pRp += pOuter()
}`},
	{Name: "panicindefer", Quick: true, Tags: []string{"defer", "panic-in-defer", "nested-panic", "own-panic"}, Src: `
var pPd string
func pBad() {
	defer func() {
		pPd += "d1"
	}()
	defer func() {
		pPd += "d2"
		panic("probe:second")
	}()
	defer func() {
		pPd += "d3"
	}()
	panic("probe:first")
}
func pCatch() {
	defer func() {
		r := recover()
		if r != nil {
			pPd += "|caught"
		}
	}()
	pBad()
}
func P() {
	pPd = ""
	pCatch()
	pPd += "|end"
}`},
	{Name: "ownescape", Quick: true, Tags: []string{"defer", "own-panic", "escaping-own-panic"}, Src: `
var pE string
func pLeaf() {
	defer func() {
		pE += "l"
	}()
	var s []int
	_ = s[3]
}
func pMid() {
	defer func() {
		pE += "m"
	}()
	pLeaf()
}
func P() {
	pE = ""
	defer func() {
		pE += "p"
	}()
	pMid()
}`},
	{Name: "named", Quick: true, Tags: []string{"defer", "named-results", "recover"}, Src: `
var pN int
func pNamed(a int) (x int, err error) {
	defer func() {
		x *= 2
	}()
	defer func() {
		if r := recover(); r != nil {
			x = -1
		}
	}()
	x = a + 1
	if a > 2 {
		panic("probe:big")
	}
	return x + 10, nil
}
func P() {
	pN = 0
	v, _ := pNamed(1)
	pN += v
	v, _ = pNamed(5)
	pN += v
}`},
	{Name: "sortslice", Quick: true, Imports: []string{"sort"}, Tags: []string{"compiled-callback", "sort.Slice"}, Src: `
var pSorted []int
func P() {
	pSorted = nil
	s := []int{5, 2, 8, 1, 9, 3}
	sort.Slice(s, func(i, j int) bool {
		return s[i] < s[j]
	})
	pSorted = s
	idx := sort.Search(len(s), func(i int) bool {
		return s[i] >= 8
	})
	pSorted = append(pSorted, idx)
}`},
	{Name: "stringsmap", Imports: []string{"strings"}, Tags: []string{"compiled-callback", "strings.Map"}, Src: `
var pM string
func P() {
	pM = ""
	pM = strings.Map(func(r rune) rune {
		if r == 'b' {
			return -1
		}
		return r + 1
	}, "abcd")
	f := strings.FieldsFunc("a,b;c", func(r rune) bool {
		return r == ',' || r == ';'
	})
	pM += f[len(f)-1]
	i := strings.IndexFunc("xyz", func(r rune) bool {
		return r == 'z'
	})
	pM += string(rune('0' + i))
}`},
	{Name: "sortsort", Imports: []string{"sort"}, Tags: []string{"compiled-callback", "interface-proxy", "methods"}, Src: `
type pBy []int
func (b pBy) Len() int {
	return len(b)
}
func (b pBy) Less(i, j int) bool {
	return b[i] > b[j]
}
func (b pBy) Swap(i, j int) {
	b[i], b[j] = b[j], b[i]
}
var pSS []int
func P() {
	pSS = nil
	b := pBy{3, 1, 4, 1, 5}
	sort.Sort(b)
	pSS = []int(b)
}`},
	{Name: "once", Imports: []string{"sync"}, Tags: []string{"compiled-callback", "sync.Once"}, Src: `
var pO int
func P() {
	pO = 0
	var o sync.Once
	for i := 0; i < 2; i++ {
		o.Do(func() {
			pO++
		})
	}
}`},
	{Name: "methods", Tags: []string{"methods", "interfaces"}, Src: `
type pT struct {
	n int
}
func (t *pT) Inc(d int) int {
	t.n += d
	return t.n
}
func (t pT) Get() int {
	return t.n
}
type pGetter interface {
	Get() int
}
var pMe int
func P() {
	pMe = 0
	t := &pT{1}
	t.Inc(2)
	f := t.Inc
	f(3)
	var g pGetter = t
	pMe = g.Get()
	h := pT.Get
	pMe += h(*t)
}`},
	{Name: "reentry", Quick: true, Imports: []string{"sort", "strings"}, Tags: []string{"compiled-callback", "nested-callback", "defer", "recover"}, Src: `
var pRe string
func pGuard(f func()) {
	defer func() {
		if r := recover(); r != nil {
			pRe += "!"
		}
	}()
	f()
}
func P() {
	pRe = ""
	pRe = strings.Map(func(r rune) rune {
		s := []int{3, 1, 2}
		sort.Slice(s, func(i, j int) bool {
			return s[i] < s[j]
		})
		pGuard(func() {
			if r == 'b' {
				panic("probe:b")
			}
		})
		return r + rune(s[0])
	}, "abc")
}`},
	{Name: "swallowcb", Imports: []string{"sort"}, Tags: []string{"compiled-callback", "defer", "recover"}, Src: `
var pSw int
func P() {
	pSw = 0
	s := []int{4, 3, 2, 1}
	sort.Slice(s, func(i, j int) (less bool) {
		defer func() {
			if r := recover(); r != nil {
				pSw++
				less = false
			}
		}()
		return s[i] < s[j]
	})
}`},
	{Name: "gotos", Tags: []string{"goto", "labels"}, Src: `
var pG int
func pSpin() {
	i := 0
	{ // gomacro resolves goto labels only inside a nested block of a function ("goto is only partially implemented")
	loop:
		pG += i
		i++
		if i >= 3 {
			return
		}
		goto loop
	}
}
func P() {
	pG = 0
	defer func() {
		recover()
		pG *= 2
	}()
	pSpin()
}`},
	{Name: "channels", Tags: []string{"channels", "select"}, Src: `
var pCh int
func P() {
	pCh = 0
	c := make(chan int, 2)
	c <- 1
	c <- 2
	select {
	case v := <-c:
		pCh += v
	default:
		pCh = -1
	}
	v, ok := <-c
	if ok {
		pCh += v
	}
	select {
	case v := <-c:
		pCh += 100 + v
	default:
		pCh += 10
	}
}`},
	{Name: "nestedeval", Quick: true, Raw: true, Tags: []string{"nested-eval", "defer"}, Src: `
var pNe int
func pHelper(a int) int {
	hk()
	defer func() {
		hk()
		pNe++
		hk()
		return
	}()
	hk()
	b := a * 2
	hk()
	return b
}
func P() {
	hk()
	pNe = 0
	hk()
	x := Eval(~quote{pHelper(3)})
	hk()
	pNe += x.(int)
	hk()
	y := Eval(~quote{Eval(~quote{pHelper(1) + pHelper(2)})})
	hk()
	pNe += y.(int)
	hk()
	return
}`},
	{Name: "topleveldefer", Quick: true, Raw: true, Tags: []string{"defer", "top-level-defer", "pending-defer-at-top-level"},
		Invoke: "{ defer pTopNop(); hk(); pTop = P(); hk() }", Src: `
var pTop int
func pTopNop() {
	hk()
	pTop++
	hk()
}
func P() int {
	hk()
	defer pTopNop()
	hk()
	x := 3
	hk()
	return x * 2
}`},
	{Name: "blocks", Quick: true, Tags: []string{"block-locals", "closures"}, Src: `
var pBl int
func P() {
	pBl = 0
	x := 1
	{
		y := x + 1
		{
			z := y + 1
			pBl += z
		}
		f := func() int {
			return y * 2
		}
		pBl += f()
	}
	if a := x + 5; a > 3 {
		b := a * 2
		pBl += b
	} else {
		c := a
		pBl -= c
	}
	for i := 0; i < 2; i++ {
		w := i
		g := func() {
			w++
		}
		g()
		pBl += w
	}
}`},
	{Name: "deepdefer", Quick: true, Tags: []string{"defer", "recover", "re-panic", "recursion", "own-panic"}, Src: `
var pDd string
func pDeep(n int) {
	defer func() {
		pDd += string(rune('0' + n))
		if n == 2 {
			if r := recover(); r != nil {
				pDd += "R"
				panic(r)
			}
		}
	}()
	if n == 0 {
		panic("probe:bottom")
	}
	pDeep(n - 1)
}
func P() {
	pDd = ""
	defer func() {
		recover()
		pDd += "."
	}()
	pDeep(4)
}`},
	{Name: "writer", Imports: []string{"fmt", "io"}, Tags: []string{"compiled-callback", "interface-proxy", "io.Writer"}, Src: `
type pWr struct {
	n *int
}
func (w pWr) Write(b []byte) (int, error) {
	k := len(b)
	*w.n += k
	return k, nil
}
var pFm int
func P() {
	pFm = 0
	n := 0
	fmt.Fprintf(pWr{&n}, "a%db", 1)
	fmt.Fprint(pWr{&n}, "x", 2)
	pFm = n
}`},
	{Name: "funcvalues", Tags: []string{"func-values", "maps"}, Src: `
var pFv int
func pDbl(x int) int {
	return 2 * x
}
func P() {
	pFv = 0
	tab := map[string]func(int) int{"d": pDbl}
	fs := []func(int) int{pDbl, func(x int) int {
		return x + 1
	}}
	pFv = tab["d"](3)
	for _, f := range fs {
		pFv += f(pFv)
	}
	var nilf func()
	if nilf == nil {
		pFv++
	}
}`},
	{Name: "defercompiled", Quick: true, Imports: []string{"fmt"}, Tags: []string{"defer", "deferred-compiled-func", "defer-args"}, Src: `
var pDc string
func pArg(s string) string {
	pDc += s
	return s
}
func pUse() {
	defer hk()
	defer fmt.Sprint(pArg("a"), pArg("b"))
	defer pArg(pArg("c"))
	pDc += "body"
}
func P() {
	pDc = ""
	pUse()
}`},
	{Name: "recovervalue", Tags: []string{"defer", "recover", "recover-returns-value"}, Src: `
var pRv string
func pTry(f func()) (r interface{}) {
	defer func() {
		r = recover()
	}()
	f()
	return nil
}
func P() {
	pRv = ""
	a := pTry(func() {
		panic("probe:a")
	})
	if a != nil {
		pRv += "a"
	}
	b := pTry(func() {
	})
	if b == nil {
		pRv += "b"
	}
	c := pTry(func() {
		pTry(func() {
			panic("probe:inner")
		})
		panic("probe:c")
	})
	if c != nil {
		pRv += "c"
	}
}`},
	{Name: "structs", Tags: []string{"structs", "pointers", "arrays"}, Src: `
type pNode struct {
	val  int
	next *pNode
}
var pSt int
func P() {
	pSt = 0
	var head *pNode
	for i := 0; i < 3; i++ {
		head = &pNode{i, head}
	}
	for n := head; n != nil; n = n.next {
		pSt = pSt*10 + n.val
	}
	arr := [2][2]int{{1, 2}, {3, 4}}
	p := &arr[1]
	p[0] = 9
	pSt += arr[1][0]
}`},
}
