package main

// C11 — interpreted functions and types used by compiled code (callbacks, proxies for compiled interfaces,
// foreign goroutines) and compiled functions called from interpreted code: differential against compiled Go.

import (
	"fmt"
	"math/rand"
	"sort"
	"strings"

	"gmverif/internal/fw"
)

func init() { register("C11", "exploration", checkC11) }

type c11Piece struct {
	name    string
	decls   []string
	imports []string
	body    string
	conc    bool // invokes callbacks from foreign goroutines
}

type c11Gen struct {
	rng *rand.Rand
	k   int // unique suffix for declared names
	tag int
}

func (g *c11Gen) t() int { g.tag++; return g.tag }

func (g *c11Gen) ints(n, max int) string {
	var s []string
	for i := 0; i < n; i++ {
		s = append(s, fmt.Sprint(g.rng.Intn(max)-max/3))
	}
	return strings.Join(s, ", ")
}

func (g *c11Gen) word() string {
	const letters = "abcxyzABC 019_-é"
	rs := []rune(letters)
	n := 1 + g.rng.Intn(10)
	var b []rune
	for i := 0; i < n; i++ {
		b = append(b, rs[g.rng.Intn(len(rs))])
	}
	return string(b)
}

func (g *c11Gen) less(a, b string) string {
	switch g.rng.Intn(5) {
	case 0:
		return a + " < " + b
	case 1:
		return a + " > " + b
	case 2:
		return fmt.Sprintf("%s%%7 < %s%%7 || %s%%7 == %s%%7 && %s < %s", a, b, a, b, a, b)
	case 3:
		return fmt.Sprintf("%s*%s < %s*%s || %s*%s == %s*%s && %s < %s", a, a, b, b, a, a, b, b, a, b)
	}
	return fmt.Sprintf("-%s < -%s", a, b)
}

func (g *c11Gen) piece() c11Piece {
	g.k++
	k := g.k
	r := g.rng
	T := func(s string) string { return fmt.Sprintf("§%s%d", s, k) }
	switch r.Intn(16) {
	case 0:
		n := 2 + r.Intn(30)
		body := fmt.Sprintf("a := []int{%s}\nsort.Slice(a, func(i, j int) bool { return %s })\nrec(%d, a)\n", g.ints(n, 100), g.less("a[i]", "a[j]"), g.t())
		body += fmt.Sprintf("b := []int{%s}\nsort.SliceStable(b, func(i, j int) bool { return b[i]%%5 < b[j]%%5 })\nrec(%d, b)\n", g.ints(n, 50), g.t())
		body += fmt.Sprintf("rec(%d, sort.Search(%d, func(i int) bool { return i*i >= %d }))\n", g.t(), 10+r.Intn(100), r.Intn(2000))
		body += fmt.Sprintf("ss := []string{%q, %q, %q, %q}\nsort.Slice(ss, func(i, j int) bool { return len(ss[i]) < len(ss[j]) || len(ss[i]) == len(ss[j]) && ss[i] < ss[j] })\nrec(%d, ss)\n", g.word(), g.word(), g.word(), g.word(), g.t())
		return c11Piece{name: "sort.Slice/SliceStable/Search", imports: []string{"sort"}, body: body}
	case 1:
		ptr := r.Intn(2) == 0
		decl := fmt.Sprintf("type %s []int\nfunc (s %s) Len() int { return len(s) }\nfunc (s %s) Less(i, j int) bool { return %s }\nfunc (s %s) Swap(i, j int) { s[i], s[j] = s[j], s[i] }",
			T("IS"), T("IS"), T("IS"), g.less("s[i]", "s[j]"), T("IS"))
		use := "s"
		if ptr {
			decl = fmt.Sprintf("type %s struct { v []int; swaps int }\nfunc (s *%s) Len() int { return len(s.v) }\nfunc (s *%s) Less(i, j int) bool { return %s }\nfunc (s *%s) Swap(i, j int) { s.swaps++; s.v[i], s.v[j] = s.v[j], s.v[i] }",
				T("IS"), T("IS"), T("IS"), g.less("s.v[i]", "s.v[j]"), T("IS"))
		}
		n := 2 + r.Intn(25)
		var body string
		if ptr {
			body = fmt.Sprintf("s := &%s{v: []int{%s}}\n", T("IS"), g.ints(n, 60))
		} else {
			body = fmt.Sprintf("s := %s{%s}\n", T("IS"), g.ints(n, 60))
			if r.Intn(2) == 0 {
				body += "sp := &s\n"
				use = "sp"
			}
		}
		switch r.Intn(4) {
		case 0:
			body += fmt.Sprintf("sort.Sort(%s)\n", use)
		case 1:
			body += fmt.Sprintf("sort.Stable(%s)\n", use)
		case 2:
			body += fmt.Sprintf("sort.Sort(sort.Reverse(%s))\n", use)
		default:
			body += fmt.Sprintf("n, ok := iopSort(%s)\nrec(%d, n, ok)\n", use, g.t())
		}
		body += fmt.Sprintf("rec(%d, *&s, sort.IsSorted(%s))\n", g.t(), use)
		if ptr {
			body = strings.Replace(body, "*&s", "s.v, s.swaps > 0 || len(s.v) < 2", 1)
		}
		return c11Piece{name: map[bool]string{true: "sort.Interface pointer receiver", false: "sort.Interface value receiver"}[ptr], decls: []string{decl}, imports: []string{"sort"}, body: body}
	case 2:
		w1, w2, w3 := g.word(), g.word()+" "+g.word(), g.word()+g.word()
		body := fmt.Sprintf("rec(%d, strings.Map(func(r rune) rune { if r == 'a' { return 'A' }; if r == 'x' || r == '0' { return -1 }; if r > 127 { return r + 1 }; return r }, %q))\n", g.t(), w3)
		body += fmt.Sprintf("rec(%d, strings.FieldsFunc(%q, func(r rune) bool { return r == ' ' || r >= '0' && r <= '9' }))\n", g.t(), w2+w1)
		body += fmt.Sprintf("rec(%d, strings.IndexFunc(%q, func(r rune) bool { return r >= 'x' }), strings.LastIndexFunc(%q, func(r rune) bool { return r < 'a' }))\n", g.t(), w3, w3)
		body += fmt.Sprintf("rec(%d, strings.TrimFunc(%q, func(r rune) bool { return r == 'a' || r == 'c' || r == ' ' }))\n", g.t(), w2)
		body += fmt.Sprintf("cnt := 0\nrec(%d, string(bytes.Map(func(r rune) rune { cnt++; return r + 1 }, []byte(%q))), cnt)\n", g.t(), w1)
		return c11Piece{name: "strings/bytes callbacks", imports: []string{"strings", "bytes"}, body: body}
	case 3:
		var decl, mk string
		mut := "v.X += 1000"
		switch r.Intn(4) {
		case 0:
			decl = fmt.Sprintf("type %s struct { X, Y int }\nfunc (p %s) String() string { return fmt.Sprintf(\"(%%d;%%d)\", p.X, p.Y) }", T("St"), T("St"))
			mk = fmt.Sprintf("%s{%d, %d}", T("St"), r.Intn(100), r.Intn(100))
		case 1:
			decl = fmt.Sprintf("type %s struct { X, Y int }\nfunc (p *%s) String() string { p.X++; return fmt.Sprintf(\"<%%d;%%d>\", p.X, p.Y) }", T("St"), T("St"))
			mk = fmt.Sprintf("&%s{%d, %d}", T("St"), r.Intn(100), r.Intn(100))
		case 2:
			decl = fmt.Sprintf("type %s int\nfunc (p %s) String() string { return \"#\" + strconv.Itoa(int(p)*2) }", T("St"), T("St"))
			mk = fmt.Sprintf("%s(%d)", T("St"), r.Intn(1000))
			mut = "v += 7"
		default:
			decl = fmt.Sprintf("type %s []string\nfunc (p %s) String() string { return strings.Join(p, \"+\") }", T("St"), T("St"))
			mk = fmt.Sprintf("%s{%q, %q}", T("St"), g.word(), g.word())
			mut = "v[0] = \"changed\""
		}
		body := fmt.Sprintf("v := %s\nrec(%d, iopStringer(v))\nvar s fmt.Stringer = v\nrec(%d, s.String(), iopStringer(s))\n", mk, g.t(), g.t())
		// the interface value holds a copy of a non-pointer value: later changes of the variable must not show through it
		body += fmt.Sprintf("%s\nrec(%d, s.String(), iopStringer(s), iopStringer(v))\n", mut, g.t())
		body += fmt.Sprintf("arr := []fmt.Stringer{v, s}\n%s\nrec(%d, iopStringer(arr[0]), iopStringer(arr[1]), iopStringer(v))\n", mut, g.t())
		body += fmt.Sprintf("f := func(x fmt.Stringer) string { return \"[\" + x.String() + \"]\" }\nrec(%d, f(v), f(s))\n", g.t())
		return c11Piece{name: "fmt.Stringer proxy", decls: []string{decl}, imports: []string{"fmt", "strconv", "strings"}, body: body}
	case 4:
		var decl, mk, mk2 string
		switch r.Intn(4) {
		case 0:
			decl = fmt.Sprintf("type %s struct { Code int }\nfunc (e *%s) Error() string { return \"err\" + strconv.Itoa(e.Code) }", T("Er"), T("Er"))
			mk = fmt.Sprintf("&%s{%d}", T("Er"), r.Intn(100))
			mk2 = fmt.Sprintf("&%s{%d}", T("Er"), 100+r.Intn(100))
		case 1:
			decl = fmt.Sprintf("type %s struct { Code int; Msg string }\nfunc (e %s) Error() string { return e.Msg + strconv.Itoa(e.Code) }", T("Er"), T("Er"))
			mk = fmt.Sprintf("%s{%d, %q}", T("Er"), r.Intn(100), g.word())
			mk2 = fmt.Sprintf("%s{%d, %q}", T("Er"), 100+r.Intn(100), g.word())
		case 2:
			decl = fmt.Sprintf("type %s int\nfunc (e %s) Error() string { return \"verr\" + strconv.Itoa(int(e)) }", T("Er"), T("Er"))
			mk = fmt.Sprintf("%s(%d)", T("Er"), r.Intn(100))
			mk2 = fmt.Sprintf("%s(%d)", T("Er"), 100+r.Intn(100))
		default:
			decl = fmt.Sprintf("type %s string\nfunc (e %s) Error() string { return \"serr:\" + string(e) }", T("Er"), T("Er"))
			mk = fmt.Sprintf("%s(%q)", T("Er"), g.word())
			mk2 = fmt.Sprintf("%s(%q)", T("Er"), g.word()+"2")
		}
		body := fmt.Sprintf("v := %s\nrec(%d, iopError(v))\nvar e error = v\nrec(%d, e.Error(), errors.Unwrap(e) == nil, iopError(e))\n", mk, g.t(), g.t())
		body += fmt.Sprintf("v0 := v\nv = %s\nrec(%d, e.Error(), iopError(e), iopError(v))\nv = v0\n", mk2, g.t())
		body += fmt.Sprintf("fail := func(n int) (int, error) { if n%%2 == 0 { return n, v }; return n, nil }\n_, e1 := fail(2)\n_, e2 := fail(3)\nrec(%d, e1 != nil, e2 == nil, e1.Error())\n", g.t())
		return c11Piece{name: "error proxy", decls: []string{decl}, imports: []string{"errors", "strconv"}, body: body}
	case 5:
		decl := fmt.Sprintf(`type %s struct { data string; pos, chunk, calls int }
func (r *%s) Read(p []byte) (int, error) {
	r.calls++
	if r.pos >= len(r.data) { return 0, io.EOF }
	n := r.chunk
	if n > len(p) { n = len(p) }
	if n > len(r.data)-r.pos { n = len(r.data) - r.pos }
	copy(p, r.data[r.pos:r.pos+n])
	r.pos += n
	return n, nil
}`, T("Rd"), T("Rd"))
		data := g.word() + "\n" + g.word() + " " + g.word() + "\n" + g.word()
		chunk := 1 + r.Intn(7)
		var body string
		switch r.Intn(5) {
		case 0:
			body = fmt.Sprintf("rd := &%s{data: %q, chunk: %d}\ns, calls, err := iopRead(rd, %d)\nrec(%d, s, calls, err == nil, rd.calls, rd.pos)\n", T("Rd"), data, chunk, 1+r.Intn(9), g.t())
		case 1:
			body = fmt.Sprintf("rd := &%s{data: %q, chunk: %d}\nb, err := io.ReadAll(rd)\nrec(%d, string(b), err == nil, rd.pos)\n", T("Rd"), data, chunk, g.t())
		case 2:
			body = fmt.Sprintf("sc := bufio.NewScanner(&%s{data: %q, chunk: %d})\nfor sc.Scan() { rec(%d, sc.Text()) }\nrec(%d, sc.Err() == nil)\n", T("Rd"), data, chunk, g.t(), g.t())
		case 3:
			body = fmt.Sprintf("var buf bytes.Buffer\nn, err := io.Copy(&buf, &%s{data: %q, chunk: %d})\nrec(%d, n, err == nil, buf.String())\n", T("Rd"), data, chunk, g.t())
		default:
			body = fmt.Sprintf("var rd io.Reader = &%s{data: %q, chunk: %d}\nlr := io.LimitReader(rd, %d)\nb, err := io.ReadAll(lr)\nrec(%d, string(b), err == nil)\ns, _, _ := iopRead(rd, 3)\nrec(%d, s)\n", T("Rd"), data, chunk, r.Intn(12), g.t(), g.t())
		}
		return c11Piece{name: "io.Reader proxy", decls: []string{decl}, imports: []string{"io", "bufio", "bytes"}, body: body}
	case 6:
		decl := fmt.Sprintf(`type %s struct { parts []string; limit int }
func (w *%s) Write(p []byte) (int, error) {
	if len(w.parts) >= w.limit { return 0, errors.New("full") }
	w.parts = append(w.parts, string(p))
	return len(p), nil
}`, T("Wr"), T("Wr"))
		limit := 1 + r.Intn(5)
		body := fmt.Sprintf("w := &%s{limit: %d}\ntot, errs := iopWrite(w, []string{%q, %q, %q})\nrec(%d, tot, errs, w.parts)\n", T("Wr"), limit, g.word(), g.word(), g.word(), g.t())
		body += fmt.Sprintf("n, err := fmt.Fprintf(w, \"%%d-%%s|%%v\", %d, %q, []int{1, 2})\nrec(%d, n, err == nil, w.parts)\n", r.Intn(100), g.word(), g.t())
		body += fmt.Sprintf("n2, err2 := io.WriteString(w, %q)\nrec(%d, n2, err2 == nil, len(w.parts))\n", g.word(), g.t())
		body += fmt.Sprintf("w2 := &%s{limit: 100}\nn3, err3 := io.Copy(w2, strings.NewReader(%q))\nrec(%d, n3, err3 == nil, strings.Join(w2.parts, \"\"))\n", T("Wr"), g.word()+g.word(), g.t())
		return c11Piece{name: "io.Writer proxy", decls: []string{decl}, imports: []string{"io", "fmt", "errors", "strings"}, body: body}
	case 7:
		decl := fmt.Sprintf(`type %s []int
func (h %s) Len() int { return len(h) }
func (h %s) Less(i, j int) bool { return %s }
func (h %s) Swap(i, j int) { h[i], h[j] = h[j], h[i] }
func (h *%s) Push(x interface{}) { *h = append(*h, x.(int)) }
func (h *%s) Pop() interface{} { old := *h; n := len(old); x := old[n-1]; *h = old[:n-1]; return x }`,
			T("H"), T("H"), T("H"), []string{"h[i] < h[j]", "h[i] > h[j]"}[r.Intn(2)], T("H"), T("H"), T("H"))
		body := fmt.Sprintf("h := &%s{%s}\nheap.Init(h)\n", T("H"), g.ints(1+r.Intn(8), 50))
		for i, n := 0, r.Intn(6); i < n; i++ {
			if r.Intn(3) == 0 {
				body += fmt.Sprintf("if h.Len() > 0 { rec(%d, heap.Pop(h)) }\n", g.t())
			} else {
				body += fmt.Sprintf("heap.Push(h, %d)\n", r.Intn(60)-10)
			}
		}
		body += fmt.Sprintf("var out []int\nfor h.Len() > 0 { out = append(out, heap.Pop(h).(int)) }\nrec(%d, out)\n", g.t())
		return c11Piece{name: "container/heap proxy", decls: []string{decl}, imports: []string{"container/heap"}, body: body}
	case 8:
		body := fmt.Sprintf("k := %d\nrec(%d, iopCallN(%d, func(i int) int { k += i; return i*i + k }), k)\n", r.Intn(10), g.t(), 1+r.Intn(8))
		body += fmt.Sprintf("rec(%d, iopCallV(func(s string, xs ...int) string { t := 0; for _, x := range xs { t += x }; return s + strconv.Itoa(len(xs)) + \":\" + strconv.Itoa(t) }))\n", g.t())
		body += fmt.Sprintf("rec(%d, iopCallM(func(i int) (int, string, error) { if i == %d { return i, \"bad\", errors.New(\"e\" + strconv.Itoa(i)) }; return i * %d, %q, nil }))\n", g.t(), r.Intn(3), 1+r.Intn(5), g.word())
		return c11Piece{name: "callbacks: plain, variadic, multi-result", imports: []string{"strconv", "errors"}, body: body}
	case 9:
		pv := []string{"\"boom\"", "42", "errors.New(\"pe\")", "[]int{1}"}[r.Intn(4)]
		body := fmt.Sprintf("rec(%d, iopCallP(func() { panic(%s) }), iopCallP(func() {}))\n", g.t(), pv)
		body += fmt.Sprintf("rec(%d, iopCallP(func() { var m map[string]int; m[\"a\"] = 1 }) != \"returned\", iopCallP(func() { defer func() { recover() }(); panic(1) }))\n", g.t())
		body += fmt.Sprintf("rec(%d, iopCallI(func(v interface{}) interface{} { switch x := v.(type) { case int: return x + 1; case string: return x + \"s\"; case []int: return len(x); case nil: return \"nil\" }; return v }, []interface{}{%d, %q, 2.5, nil, []int{1, 2}, true}))\n", g.t(), r.Intn(100), g.word())
		return c11Piece{name: "callbacks: panic through compiled frames, interface{} values", imports: []string{"errors"}, body: body}
	case 10:
		body := fmt.Sprintf("add := iopAdder(%d)\nrec(%d, add(1), add(%d), iopCallN(3, add))\n", r.Intn(50), g.t(), r.Intn(9), )
		body += fmt.Sprintf("m := %d\nrec(%d, iopApply([]func(int) int{func(x int) int { return x + m }, add, func(x int) int { m++; return x * 3 }}, %d), m)\n", r.Intn(9), g.t(), r.Intn(20))
		body += fmt.Sprintf("rec(%d, iopLookup(map[string]func(int) int{\"d\": func(x int) int { return 2 * x }, \"a\": add}, %q, %d), iopLookup(nil, \"d\", 5))\n", g.t(), []string{"d", "a", "zz"}[r.Intn(3)], r.Intn(50))
		body += fmt.Sprintf("rec(%d, iopField(struct{ F func(int) int; N int }{func(x int) int { return x - m }, %d}))\n", g.t(), r.Intn(50))
		body += fmt.Sprintf("ch := make(chan func() int, 3)\nfor i := 1; i <= 3; i++ { j := i + m; ch <- func() int { return j %% 10 } }\nclose(ch)\nrec(%d, iopChan(ch))\n", g.t())
		body += fmt.Sprintf("rec(%d, iopCompose(func(x int) int { return x * 2 }, func(x int) string { return strconv.Itoa(x) + \"!\" })(%d))\n", g.t(), r.Intn(100))
		return c11Piece{name: "functions in slices, maps, struct fields, channels; compiled closures", imports: []string{"strconv"}, body: body}
	case 11:
		n := 2 + r.Intn(15)
		var body string
		switch r.Intn(4) {
		case 0:
			body = fmt.Sprintf("base := %d\nrec(%d, par(%d, func(i int) int { s := base; for j := 0; j <= i; j++ { s += j * j }; return s }))\n", r.Intn(10), g.t(), n)
		case 1:
			body = fmt.Sprintf("rec(%d, par(%d, func(i int) int { a := []int{%s, i}; sort.Slice(a, func(x, y int) bool { return a[x] < a[y] }); return a[0] + a[len(a)-1]*i }))\n", g.t(), n, g.ints(6, 40))
		case 2:
			body = fmt.Sprintf("var mu sync.Mutex\ntotal := 0\nseen := map[int]int{}\nsum := par(%d, func(i int) int { mu.Lock(); total += i; seen[i]++; mu.Unlock(); return 1 })\nrec(%d, sum, total, seen)\n", n, g.t())
		default:
			body = fmt.Sprintf("var once sync.Once\ninits := 0\nsum := par(%d, func(i int) int { once.Do(func() { inits++ }); return strings.Count(strings.Repeat(\"ab\", i), \"a\") })\nrec(%d, sum, inits)\n", n, g.t())
		}
		return c11Piece{name: "callbacks invoked concurrently from foreign goroutines", imports: []string{"sort", "sync", "strings"}, body: body, conc: true}
	case 12:
		body := fmt.Sprintf("p, q, sl, mm := %d, %q, []int{%s}, map[string]int{}\niopPtr(&p, &q, sl, mm)\nrec(%d, p, q, sl, mm)\n", r.Intn(100), g.word(), g.ints(1+r.Intn(5), 30), g.t())
		body += fmt.Sprintf("t0, t1, t2, t3, t4, t5, t6, t7, t8, t9 := iopTypes(%v, %d, %d, %d, %d.5, complex(%d, %d), %q, []byte(%q), [3]int{%s}, %q)\nrec(%d, t0, t1, t2, t3, t4, t5, t6, nc(t7), t8, t9)\n",
			r.Intn(2) == 0, r.Intn(256)-128, r.Intn(65536), r.Int63()-r.Int63(), r.Intn(1000), r.Intn(9), r.Intn(9), g.word(), g.word(), g.ints(3, 99), rune('a'+r.Intn(26)), g.t())
		body += fmt.Sprintf("n, err := strconv.Atoi(%q)\nrec(%d, n, err == nil)\nrec(%d, strings.Split(%q, \"a\"), strings.NewReplacer(\"a\", \"1\", \"b\", \"2\").Replace(%q), math.Max(%d, %d.5), strings.Repeat(%q, %d))\n",
			[]string{"12", "x1", "-7", "99999999999999999999", ""}[r.Intn(5)], g.t(), g.t(), g.word(), g.word(), r.Intn(9), r.Intn(9), g.word(), r.Intn(4))
		return c11Piece{name: "compiled functions called with assorted values, pointers, multiple results", imports: []string{"strconv", "strings", "math"}, body: body}
	case 13:
		body := fmt.Sprintf("re := regexp.MustCompile(\"[0-9]+|a+\")\nrec(%d, re.ReplaceAllStringFunc(%q, func(m string) string { return \"<\" + strconv.Itoa(len(m)) + \">\" }))\n", g.t(), g.word()+"12a"+g.word()+"aa7")
		body += fmt.Sprintf("tm := template.Must(template.New(\"t\").Funcs(template.FuncMap{\"dbl\": func(i int) int { return i * 2 }, \"up\": func(s string) string { return strings.ToUpper(s) }}).Parse(\"{{dbl .N}}-{{up .S}}\"))\nvar tb bytes.Buffer\nrec(%d, tm.Execute(&tb, map[string]interface{}{\"N\": %d, \"S\": %q}) == nil, tb.String())\n", g.t(), r.Intn(100), g.word())
		return c11Piece{name: "regexp and text/template callbacks", imports: []string{"regexp", "strconv", "text/template", "bytes", "strings"}, body: body}
	case 14:
		body := fmt.Sprintf("done := make(chan int, 1)\ntimer := time.AfterFunc(time.Millisecond, func() { done <- %d })\nrec(%d, <-done, timer.Stop())\n", r.Intn(100), g.t())
		body += fmt.Sprintf("var wg sync.WaitGroup\nres := make([]int, %d)\nfor i := range res { wg.Add(1); i := i; time.AfterFunc(0, func() { defer wg.Done(); res[i] = i * i }) }\nwg.Wait()\nrec(%d, res)\n", 1+r.Intn(6), g.t())
		return c11Piece{name: "time.AfterFunc callbacks on runtime goroutines", imports: []string{"time", "sync"}, body: body, conc: true}
	default:
		decl := fmt.Sprintf("type %s struct { Name string `json:\"name\"`; Vals []int `json:\"vals,omitempty\"` }", T("J"))
		body := fmt.Sprintf("js, err := json.Marshal(%s{Name: %q, Vals: []int{%s}})\nrec(%d, string(js), err == nil)\nvar back %s\nerr = json.Unmarshal(js, &back)\nrec(%d, back, err == nil)\n", T("J"), g.word(), g.ints(r.Intn(4), 20), g.t(), T("J"), g.t())
		return c11Piece{name: "encoding/json on interpreted struct types", decls: []string{decl}, imports: []string{"encoding/json"}, body: body}
	}
}

func c11Prog(id int, rng *rand.Rand, feat map[string]int) *Prog {
	g := &c11Gen{rng: rng}
	n := 2 + rng.Intn(5)
	var chunks []string
	imports := map[string]bool{}
	var body strings.Builder
	conc := false
	var names []string
	for i := 0; i < n; i++ {
		pc := g.piece()
		feat[pc.name]++
		names = append(names, pc.name)
		chunks = append(chunks, pc.decls...)
		for _, im := range pc.imports {
			imports[im] = true
		}
		conc = conc || pc.conc
		body.WriteString("{\n" + pc.body + "}\n")
	}
	chunks = append(chunks, "func §P() {\n"+body.String()+"}\n")
	src := strings.Join(chunks, "\n//--\n")
	var imps []string
	for im := range imports {
		base := im[strings.LastIndexByte(im, '/')+1:]
		if strings.Contains(src, base+".") {
			imps = append(imps, im)
		}
	}
	sort.Strings(imps)
	cell := names[0]
	if conc {
		cell = "concurrent"
	}
	return &Prog{ID: fmt.Sprintf("c11-%d", id), Imports: imps, Src: src, Chunks: chunks, Cell: cell, Mode: map[string]string{"interop": "1"}}
}

func checkC11(r *fw.Run) {
	r.SetRule("seeded programs of 2-6 pieces drawn from 16 interop shapes with seeded data: interpreted closures given to sort.Slice/SliceStable/Search, strings.Map/FieldsFunc/IndexFunc/TrimFunc, bytes.Map, regexp.ReplaceAllStringFunc, text/template FuncMap, time.AfterFunc, sync.Once; interpreted types used by compiled code through sort.Interface (value and pointer receivers, also via a pointer to a value-receiver type), heap.Interface, fmt.Stringer, error (struct, pointer, named int, named string, wrapped with %w), io.Reader (ReadAll, Scanner, Copy, LimitReader) and io.Writer (Fprintf, WriteString, Copy); 18 compiled helper functions (the same source is compiled into the reference) that call interpreted functions with plain, variadic, multiple and interface{} signatures, recover panics raised by them, receive them in slices, maps, struct fields and channels, return compiled closures, write through interpreted pointers and round-trip 10 kinds of values; callbacks invoked concurrently from foreign goroutines (par(n, f) with pure, sort.Slice, mutex and sync.Once bodies); json round trips of interpreted struct types; oracle = event equality with compiled Go; programs with concurrent callbacks are additionally run in the race-detector build at GOMAXPROCS 1 and 4; distinct = distinct program texts")
	r.Assume("reference = the same program compiled by Go 1.23.5 with the same helper source; values of interpreted types handed to compiled code as interface{} (fmt.Sprint(v)) lose their methods and type names (documented emulation limitation) and are not generated; identity of two proxies made from the same value is not compared")
	o := e1Opts{Findings: []e1Finding{
		{"C11-typed-const-to-interface", "type §E int\nfunc (e §E) Error() string { return \"e\" }\nconst §K §E = 6\nfunc §P() { var e error = §K; rec(1, e.Error()) }\n"},
	}}
	if p := fw.ReplayArg(); p != "" {
		e1ReplayFile(r, p, o)
		return
	}
	rng := r.Rng("progs")
	n := r.Pick(240, 1400)
	feat := map[string]int{}
	var progs, conc []*Prog
	for i := 0; i < n; i++ {
		p := c11Prog(i, rng, feat)
		progs = append(progs, p)
		if p.Cell == "concurrent" && len(conc) < r.Pick(24, 200) {
			conc = append(conc, p)
		}
	}
	r.Extra("pieces_generated", feat)
	e1Run(r, progs, o)
	c10RunRace(r, "C11", conc, []string{"1", "4"}, c10Classify)
}
