package main

// C04 — untyped constant expressions: exact value and untyped kind as Go's constant evaluation;
// typed contexts accept/reject and convert as compiled Go; math/big conversions are exact.

import (
	"fmt"
	"go/constant"
	"go/token"
	"go/types"
	"math/big"
	"math/rand"
	"runtime"
	"strings"
	"sync"

	"github.com/cosmos72/gomacro/base"
	"github.com/cosmos72/gomacro/base/untyped"
	"github.com/cosmos72/gomacro/fast"
	"github.com/cosmos72/gomacro/go/etoken"

	"gmverif/internal/fw"
)

func init() { register("C04", "exploration", checkC04) }

type c04Gen struct{ rng *rand.Rand }

func (g *c04Gen) pick(xs ...string) string { return xs[g.rng.Intn(len(xs))] }

func (g *c04Gen) intLit() string {
	r := g.rng
	switch r.Intn(10) {
	case 0:
		return g.pick("0", "1", "2", "3", "7", "8", "10", "255", "256", "65535", "4294967296", "9223372036854775807", "9223372036854775808", "18446744073709551615", "18446744073709551616")
	case 1:
		return fmt.Sprintf("0x%x", r.Uint64()>>uint(r.Intn(60)))
	case 2:
		return fmt.Sprintf("0b%b", r.Intn(1<<12))
	case 3:
		return fmt.Sprintf("0o%o", r.Intn(1<<20))
	case 4:
		return fmt.Sprintf("0%o", r.Intn(1<<12))
	case 5:
		return fmt.Sprintf("%d_%03d_%03d", 1+r.Intn(999), r.Intn(1000), r.Intn(1000))
	case 6:
		return fmt.Sprintf("0x_%x_%04x", 1+r.Intn(255), r.Intn(65536))
	case 7:
		return fmt.Sprintf("(1<<%d)", r.Intn(300))
	case 8:
		var b strings.Builder
		for i, n := 0, 20+r.Intn(60); i < n; i++ {
			b.WriteByte(byte('1' + r.Intn(9)))
		}
		return b.String()
	}
	return fmt.Sprint(r.Intn(1000))
}

func (g *c04Gen) floatLit() string {
	r := g.rng
	switch r.Intn(9) {
	case 0:
		return g.pick("0.0", "1.0", "0.5", "1.5", "0.1", "2.", ".5", "1e3", "1E-3", "3.14159", "1e100", "1e-100", "6.02214076e23")
	case 1:
		return fmt.Sprintf("%d.%de%d", r.Intn(100), r.Intn(10000), r.Intn(700)-350)
	case 2:
		return fmt.Sprintf("0x%x.%xp%d", r.Intn(256), r.Intn(4096), r.Intn(200)-100)
	case 3:
		return fmt.Sprintf("0x1p%d", r.Intn(2000)-1000)
	case 4:
		return fmt.Sprintf("%d_%03d.%d_%d", 1+r.Intn(99), r.Intn(1000), r.Intn(100), r.Intn(100))
	case 5:
		return fmt.Sprintf("1e%d", r.Intn(800)-400)
	case 6:
		return fmt.Sprintf("%d.0", r.Intn(1<<20))
	}
	return fmt.Sprintf("%d.%d", r.Intn(1000), r.Intn(1000))
}

func (g *c04Gen) lit(class string) string {
	switch class {
	case "int":
		return g.intLit()
	case "rune":
		return g.pick("'a'", "'\\n'", "'\\x00'", "'\\377'", "'世'", "'\\u00e9'", "'\\U0010FFFF'", "'0'", "'\\\\'", "'\\''")
	case "float":
		return g.floatLit()
	case "complex":
		switch g.rng.Intn(4) {
		case 0:
			return g.pick("1i", "0i", "2.5i", "1e3i", "0x1p-2i", "0b11i", "017i", "1_0i")
		case 1:
			return "(" + g.floatLit() + " + " + g.floatLit() + "i)"
		}
		return g.intLit() + "i"
	case "string":
		return g.pick(`""`, `"a"`, `"ab"`, `"b"`, "`raw\\n`", `"\x00\xff"`, `"é世"`, `"a\tb"`)
	case "bool":
		return g.pick("true", "false")
	}
	return "0"
}

var c04NumClasses = []string{"int", "int", "rune", "float", "float", "complex"}

// expr returns a random constant expression whose *intended* class is given; go/types decides validity.
func (g *c04Gen) expr(class string, depth int) string {
	r := g.rng
	if depth <= 0 || r.Intn(4) == 0 {
		return g.lit(class)
	}
	num := func() string { return c04NumClasses[r.Intn(len(c04NumClasses))] }
	switch class {
	case "bool":
		switch r.Intn(5) {
		case 0:
			return "!" + g.expr("bool", depth-1)
		case 1:
			return "(" + g.expr("bool", depth-1) + g.pick(" && ", " || ", " == ", " != ") + g.expr("bool", depth-1) + ")"
		case 2:
			return "(" + g.expr("string", depth-1) + g.pick(" == ", " != ", " < ", " <= ", " > ", " >= ") + g.expr("string", depth-1) + ")"
		default:
			a, b := num(), num()
			op := g.pick(" == ", " != ", " < ", " <= ", " > ", " >= ")
			if (a == "complex" || b == "complex") && r.Intn(4) != 0 {
				op = g.pick(" == ", " != ")
			}
			return "(" + g.expr(a, depth-1) + op + g.expr(b, depth-1) + ")"
		}
	case "string":
		return "(" + g.expr("string", depth-1) + " + " + g.expr("string", depth-1) + ")"
	case "int", "rune":
		switch r.Intn(9) {
		case 0:
			return g.pick("-", "+", "^") + g.expr(class, depth-1)
		case 1:
			return "(" + g.expr(class, depth-1) + g.pick(" << ", " >> ") + fmt.Sprint(r.Intn(70)) + ")"
		case 2:
			return "(" + g.expr(class, depth-1) + g.pick(" << ", " >> ") + "(" + g.expr("int", depth-2) + " & 63))"
		case 3:
			return "(" + g.expr(class, depth-1) + g.pick(" / ", " % ") + g.expr(g.pick("int", "rune"), depth-1) + ")"
		case 4:
			return "(" + g.expr(class, depth-1) + g.pick(" & ", " | ", " ^ ", " &^ ") + g.expr(g.pick("int", "rune"), depth-1) + ")"
		default:
			return "(" + g.expr(class, depth-1) + g.pick(" + ", " - ", " * ") + g.expr(g.pick("int", "rune"), depth-1) + ")"
		}
	case "float":
		switch r.Intn(7) {
		case 0:
			return g.pick("-", "+") + g.expr("float", depth-1)
		case 1:
			return "(" + g.expr("float", depth-1) + " / " + g.expr(g.pick("int", "float"), depth-1) + ")"
		case 2:
			return "(" + g.expr("int", depth-1) + " / " + g.expr("float", depth-1) + ")"
		case 3:
			return g.pick("real", "imag") + "(" + g.expr("complex", depth-1) + ")"
		default:
			return "(" + g.expr(g.pick("float", "int", "rune"), depth-1) + g.pick(" + ", " - ", " * ") + g.expr("float", depth-1) + ")"
		}
	case "complex":
		switch r.Intn(6) {
		case 0:
			return "-" + g.expr("complex", depth-1)
		case 1:
			return "(" + g.expr("complex", depth-1) + " / " + g.expr(num(), depth-1) + ")"
		case 2:
			return "complex(" + g.expr(g.pick("float", "int"), depth-1) + ", " + g.expr(g.pick("float", "int"), depth-1) + ")"
		default:
			return "(" + g.expr(num(), depth-1) + g.pick(" + ", " - ", " * ") + g.expr("complex", depth-1) + ")"
		}
	}
	return g.lit(class)
}

type c04Case struct {
	Expr string `json:"expr"`
	Want string `json:"go,omitempty"`
	Got  string `json:"interpreter,omitempty"`
}

func c04GoEval(expr string) (kind untyped.Kind, val constant.Value, typed bool, err error) {
	fset := token.NewFileSet()
	tv, e := types.Eval(fset, nil, token.NoPos, expr)
	if e != nil {
		return 0, nil, false, e
	}
	if tv.Value == nil {
		return 0, nil, false, fmt.Errorf("not constant")
	}
	b, ok := tv.Type.(*types.Basic)
	if !ok || b.Info()&types.IsUntyped == 0 {
		return 0, tv.Value, true, nil
	}
	return untyped.GoUntypedToKind(b.Kind()), tv.Value, false, nil
}

func c04NewInterp() *fast.Interp {
	etoken.GENERICS = etoken.GENERICS_V2_CTI
	ir := newQuietInterp()
	ir.Comp.Globals.Options |= base.OptKeepUntyped
	return ir
}

func c04One(r *fw.Run, ir *fast.Interp, expr string) {
	kind, want, typed, err := c04GoEval(expr)
	if err != nil {
		r.Count("go_rejects", 1)
		r.Cover("go_reject_reason", c04Reason(err.Error()))
		return
	}
	if typed {
		r.Count("go_typed_result", 1)
		return
	}
	// documented limit: untyped float arithmetic is exact only while numerator and denominator are <= 5e1232
	if c32BeyondLimit(want) || want.Kind() == constant.Float && !strings.Contains(want.ExactString(), "/") && strings.HasPrefix(strings.TrimPrefix(want.ExactString(), "-"), "0x") {
		r.Count("beyond_documented_exactness_limit", 1)
		return
	}
	var got untyped.Lit
	var isLit bool
	perr, bad := guard(func() {
		vs, _ := ir.Eval(expr)
		if len(vs) == 1 {
			got, isLit = vs[0].Interface().(untyped.Lit)
		}
	})
	r.Eval(1)
	c := c04Case{Expr: expr, Want: fmt.Sprintf("%v %s", kind, fw.Clip(want.ExactString(), 300))}
	r.Cover("untyped_kind", kind.String())
	if bad {
		c.Got = "error: " + fw.Clip(panicText(perr), 300)
		if strings.Contains(expr, "<<") || strings.Contains(expr, ">>") {
			// documented limitation: shifts of untyped floating-point constants
			if strings.Contains(panicText(perr), "shift") {
				r.Count("documented_shift_limitation", 1)
				return
			}
		}
		r.Violation("rejected/"+kind.String(), c, fmt.Sprintf("%s: Go evaluates to %s, the interpreter fails: %s", fw.Clip(expr, 300), c.Want, c.Got))
		return
	}
	if !isLit {
		r.Violation("not-untyped/"+kind.String(), c, fmt.Sprintf("%s: Go gives untyped %s, the interpreter returned a typed value", fw.Clip(expr, 300), c.Want))
		return
	}
	r.Distinct(expr)
	c.Got = fmt.Sprintf("%v %s", got.Kind, fw.Clip(got.Val.ExactString(), 300))
	same := got.Kind == kind
	if same {
		switch want.Kind() {
		case constant.String:
			same = got.Val.Kind() == constant.String && constant.StringVal(got.Val) == constant.StringVal(want)
		case constant.Bool:
			same = got.Val.Kind() == constant.Bool && constant.BoolVal(got.Val) == constant.BoolVal(want)
		default:
			same = constant.Compare(want, token.EQL, got.Val)
		}
	}
	if !same {
		if (strings.Contains(expr, "<<") || strings.Contains(expr, ">>")) && c04FloatShift(expr) {
			r.Count("documented_shift_limitation", 1)
			return
		}
		r.Violation("value/"+kind.String(), c, fmt.Sprintf("%s: Go %s, interpreter %s", fw.Clip(expr, 300), c.Want, c.Got))
		return
	}
	if r.Counter("sampled") < 5 && len(expr) > 20 && len(expr) < 160 {
		r.Count("sampled", 1)
		r.Sample(c)
	}
}

func c04FloatShift(expr string) bool {
	// a shift whose left operand could be an untyped float/complex/rune constant is a documented deviation
	return strings.ContainsAny(expr, ".ipe'")
}

func c04Reason(msg string) string {
	for _, k := range []string{"division by zero", "overflow", "not defined", "mismatched", "truncated", "shift", "invalid operation", "cannot", "negative"} {
		if strings.Contains(msg, k) {
			return k
		}
	}
	return "other"
}

func checkC04(r *fw.Run) {
	r.SetRule("(a) seeded random constant-expression trees (depth <= 5) over literals of every base and form (0b 0o 0x, _ separators, hex floats, imaginary, runes, strings, huge integers) with arithmetic, shifts, integer division, bitwise, comparison, logical, real/imag/complex; go/types' types.Eval gives the reference kind and exact value, the interpreter (OptKeepUntyped) must return an untyped constant of the same kind with constant.Compare == value; expressions Go rejects are skipped and counted; (b) typed contexts: var x T = <const> for every basic T as E1 programs - accepted ones must give compiled Go's value, ones go/types rejects must be rejected; (c) math/big: var p *big.Int / *big.Rat / *big.Float = <const> must hold the exact value and two evaluations must give distinct pointers; distinct = distinct expressions / programs")
	r.Assume("go/types + go/constant of the installed toolchain are the reference; README limit honoured: float exactness only while numerator and denominator <= 5e1232; documented deviation for shifts of untyped floating-point constants is not compared")
	if p := fw.ReplayArg(); p != "" {
		var c c04Case
		if err := fw.LoadReplay(p, &c); err == nil && c.Expr != "" {
			r.SetMinDistinct(0)
			c04One(r, c04NewInterp(), c.Expr)
			k, v, _, err := c04GoEval(c.Expr)
			fmt.Println("go:", k, v, err)
			return
		}
		e1ReplayFile(r, p, e1Opts{CheckReject: true})
		return
	}
	// ---- (a)
	n := r.Pick(12000, 300000)
	nw := runtime.NumCPU()
	var wg sync.WaitGroup
	for w := 0; w < nw; w++ {
		wg.Add(1)
		go func(w int) {
			defer wg.Done()
			g := &c04Gen{rng: r.Rng(fmt.Sprintf("expr%d", w))}
			ir := c04NewInterp()
			classes := []string{"int", "int", "rune", "float", "float", "complex", "string", "bool"}
			for i := 0; i < n/nw; i++ {
				c04One(r, ir, g.expr(classes[g.rng.Intn(len(classes))], 1+g.rng.Intn(5)))
				if i%2000 == 1999 {
					ir = c04NewInterp()
				}
			}
		}(w)
	}
	wg.Wait()
	// enumerated core
	ir := c04NewInterp()
	for _, e := range []string{"1<<100", "'a'+1", "1.5*2", "3/2", "3.0/2", "1i*1i", `"a"+"b"`, "1<2", "-5 % 3", "-5 / 3", "1e400*1e400", "1<<512 - 1", "0x1p-1000 / 3",
		"'a' * 2.0", "'a' + 1.5", "1 + 'a'", "2i / 4", "real(3+4i)", "imag(3+4i)", "complex(1, 2)", "^0", "^'a'", "-0.0", "1/3.0 + 1/3.0 + 1/3.0", "0.1 + 0.2", "(1<<62) * 4", "5 &^ 3", "7 >> 1", "1 << 3 << 2",
		"9223372036854775807 + 1", "18446744073709551615 + 1", `"x" < "y"`, "1.0 == 1", "'a' == 97", "1i == 1i", "!true || false", "1_000 * 0x_10", "0b101 | 0o17", "017 + 08.5"} {
		c04One(r, ir, e)
	}
	// ---- (c) math/big
	c04Big(r)
	// ---- (b) typed contexts through the difftrace engine
	g := &c04Gen{rng: r.Rng("typed")}
	var progs []*Prog
	id := 0
	consts := []string{"0", "1", "-1", "127", "128", "-128", "-129", "255", "256", "32767", "32768", "65535", "65536", "2147483647", "2147483648", "-2147483648", "-2147483649",
		"4294967295", "4294967296", "9223372036854775807", "9223372036854775808", "-9223372036854775808", "-9223372036854775809", "18446744073709551615", "18446744073709551616",
		"1.0", "1.5", "-0.0", "1e10", "1e40", "3.4028234e38", "3.5e38", "1e308", "1.8e308", "1e-50", "5e-324", "1e-400", "16777217.0", "9007199254740993.0", "1<<53 + 1", "1<<64 - 1", "1<<63", "1<<100",
		"'a'", "'世'", "1i", "1+0i", "1.5+0i", "(2+3i)*(2-3i)", `"s"`, "true", "1e3", "1000000000000.0", "0.1", "255.0", "256.0", "-1.0", "1e2i", "7/2", "7/2.0", "7.0/2", "'a'/2", "1<<10", "2.0*4", "8.0/2"}
	nextra := r.Pick(20, 200)
	for i := 0; i < nextra; i++ {
		consts = append(consts, g.expr(c04NumClasses[g.rng.Intn(len(c04NumClasses))], 1+g.rng.Intn(2)))
	}
	quick := !r.Thorough()
	for ci, c := range consts {
		for ki := range allKinds {
			k := &allKinds[ki]
			if quick && ci >= 66 && (ci+ki+int(r.Seed))%4 != 0 {
				continue
			}
			id++
			src := fmt.Sprintf("func §P() {\nvar x %s = %s\nrec(1, x)\nconst c %s = %s\nrec(2, c)\nrec(3, %s(%s))\ny := []%s{%s}\nrec(4, y)\n}\n", k.Name, c, k.Name, c, k.Name, c, k.Name, c)
			progs = append(progs, &Prog{ID: fmt.Sprintf("c04-%d", id), Src: src, Cell: "typed/" + k.Name})
		}
	}
	r.Extra("typed_context_programs", len(progs))
	e1Run(r, progs, e1Opts{CheckReject: true})
}

func c04Big(r *fw.Run) {
	ir := c04NewInterp()
	ir.Comp.Globals.Options &^= base.OptKeepUntyped
	if _, bad := guard(func() { ir.Eval(`import "math/big"`) }); bad {
		r.Inconclusive("cannot import math/big in the interpreter")
		return
	}
	g := &c04Gen{rng: r.Rng("big")}
	n := r.Pick(300, 5000)
	exprs := []string{"1<<1000", "-1<<200", "0", "1.000000000000000000001", "5e1232", "1e-300", "1.0/3", "'a'", "1<<64", "12345678901234567890123456789", "0x1p-1074", "7", "2.5", "1e100", "3/4.0"}
	for i := 0; i < n; i++ {
		exprs = append(exprs, g.expr(g.pick("int", "float", "rune"), 1+g.rng.Intn(3)))
	}
	for i, e := range exprs {
		_, want, typed, err := c04GoEval(e)
		if err != nil || typed || want.Kind() == constant.Complex || want.Kind() == constant.String || want.Kind() == constant.Bool {
			continue
		}
		if c32BeyondLimit(want) {
			continue
		}
		rat := new(big.Rat)
		if _, ok := rat.SetString(want.ExactString()); !ok {
			// beyond the exact-rational range of go/constant (hex mantissa form): documented limit
			r.Count("big_beyond_limit", 1)
			continue
		}
		for _, target := range []string{"Int", "Rat", "Float"} {
			if target == "Int" && !rat.IsInt() {
				continue // Go-style truncation is not defined for this extension; only representable values are demanded
			}
			var p1, p2 interface{}
			name := fmt.Sprintf("bg%d%s", i, target)
			perr, bad := guard(func() {
				vs, _ := ir.Eval(fmt.Sprintf("var %s *big.%s = %s; %s", name, target, e, name))
				p1 = vs[0].Interface()
				vs, _ = ir.Eval(fmt.Sprintf("(func() *big.%s { var q *big.%s = %s; return q })()", target, target, e))
				p2 = vs[0].Interface()
			})
			r.Eval(1)
			r.Cover("big_target", target)
			c := c04Case{Expr: fmt.Sprintf("var p *big.%s = %s", target, e), Want: rat.String()}
			if bad {
				r.Violation("big-rejected/"+target, c, fmt.Sprintf("%s: exact value %s is representable but the interpreter fails: %s", c.Expr, fw.Clip(c.Want, 200), fw.Clip(panicText(perr), 300)))
				continue
			}
			r.Distinct(c.Expr)
			ok, fresh := false, true
			switch a := p1.(type) {
			case *big.Int:
				ok = a != nil && new(big.Rat).SetInt(a).Cmp(rat) == 0
				b, _ := p2.(*big.Int)
				fresh = b != nil && a != b
				c.Got = fmt.Sprint(a)
			case *big.Rat:
				ok = a != nil && a.Cmp(rat) == 0
				b, _ := p2.(*big.Rat)
				fresh = b != nil && a != b
				c.Got = fmt.Sprint(a)
			case *big.Float:
				if a != nil {
					// exact whenever representable: a big.Float holds dyadic rationals only
					if x, acc := new(big.Float).SetPrec(a.Prec()).SetRat(rat).Rat(nil); acc == big.Exact && x.Cmp(rat) == 0 {
						got, _ := a.Rat(nil)
						ok = got != nil && got.Cmp(rat) == 0
					} else {
						ok = true // not representable at this precision: nothing demanded
						r.Count("big_float_not_representable", 1)
					}
				}
				b, _ := p2.(*big.Float)
				fresh = b != nil && a != b
				c.Got = fmt.Sprint(a)
			}
			if !ok {
				r.Violation("big-value/"+target, c, fmt.Sprintf("%s: exact value %s, interpreter holds %s", c.Expr, fw.Clip(c.Want, 200), fw.Clip(c.Got, 200)))
			} else if !fresh {
				r.Violation("big-shared-pointer/"+target, c, c.Expr+": two evaluations returned the same pointer")
			}
		}
	}
}
