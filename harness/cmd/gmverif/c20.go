package main

// C20 - macro expansion rewrites exactly the macro calls and leaves other code unchanged.
//
// Part (a), macro-free code: every top-level node of GOROOT/src (files without type parameters) and of
// /repo, parsed by the fork parser exactly as the interpreters do (Globals.ParseBytes), is pushed through
// fast Comp.MacroExpandCodewalk and classic Env.MacroExpandAstCodewalk as one NodeSlice per file (what
// Comp.Parse does). Oracle: position-insensitive structural equality after normalising BOTH sides with
// c20Norm, which applies only what base.UnwrapTrivialAst + the ast2 Set() re-wrapping can do.
//
// Part (b), macro programs: see c20_gen.go (generator) and c20_model.go (reference expander).

import (
	"fmt"
	"go/ast"
	goparser "go/parser"
	"go/token"
	"io"
	"os"
	"path/filepath"
	"reflect"
	"runtime"
	"sort"
	"strings"
	"sync"

	"github.com/cosmos72/gomacro/ast2"
	"github.com/cosmos72/gomacro/classic"
	"github.com/cosmos72/gomacro/fast"
	"github.com/cosmos72/gomacro/imports"

	"gmverif/internal/fw"
)

func init() { register("C20", "exploration", checkC20) }

type c20Replay struct {
	Part   string   `json:"part"`             // "a" | "b"
	Interp string   `json:"interp,omitempty"` // fast | classic
	File   string   `json:"file,omitempty"`   // part a
	Index  int      `json:"index,omitempty"`  // part a: top-level node index
	Case   *c20Case `json:"case,omitempty"`   // part b
	Entry  string   `json:"entry,omitempty"`  // part b: which entry point
	Want   string   `json:"want,omitempty"`
	Got    string   `json:"got,omitempty"`
}

type c20Interps struct {
	f *fast.Interp
	c *classic.Interp
}

// importing the real "go/ast" into the fast interpreter costs ~25 s (every type of the package is
// converted); the macros only need the name ast.Node, so a one-type package is registered instead.
var c20AstOnce sync.Once

const c20AstImport = `import "c20/ast"`

func c20RegisterAst() {
	c20AstOnce.Do(func() {
		imports.Packages["c20/ast"] = imports.Package{
			Name:  "ast",
			Binds: map[string]reflect.Value{},
			Types: map[string]reflect.Type{"Node": reflect.TypeOf((*ast.Node)(nil)).Elem()},
		}
	})
}

func c20NewInterps() *c20Interps {
	c20RegisterAst()
	ip := &c20Interps{f: fast.New(), c: classic.New()}
	ip.f.Comp.Globals.Stdout = io.Discard
	ip.f.Comp.Globals.Stderr = io.Discard
	ip.c.Env.Globals.Stdout = io.Discard
	ip.c.Env.Globals.Stderr = io.Discard
	return ip
}

func c20Recover(err *string) {
	if e := recover(); e != nil {
		*err = fmt.Sprintf("%v", e)
		if *err == "" {
			*err = "panic"
		}
	}
}

// parse with the fork parser, configured as the fast interpreter configures it
func (ip *c20Interps) parse(src []byte) (nodes []ast.Node, err string) {
	defer c20Recover(&err)
	return ip.f.Comp.ParseBytes(src), ""
}

func (ip *c20Interps) parseClassic(src []byte) (nodes []ast.Node, err string) {
	defer c20Recover(&err)
	return ip.c.Env.ParseBytes(src), ""
}

func c20AstOut(form ast2.Ast) *c20T {
	if form == nil {
		return nil
	}
	switch x := form.Interface().(type) {
	case []ast.Node:
		return c20FromNodes(x)
	case ast.Node:
		return c20FromNode(x)
	case nil:
		return nil
	default:
		panic(fmt.Sprintf("c20: unexpected macroexpansion result %T", x))
	}
}

func (ip *c20Interps) walkFast(nodes []ast.Node) (out *c20T, expanded bool, err string) {
	defer c20Recover(&err)
	form, exp := ip.f.Comp.MacroExpandCodewalk(ast2.NodeSlice{X: nodes})
	return c20AstOut(form), exp, ""
}

func (ip *c20Interps) walkClassic(nodes []ast.Node) (out *c20T, expanded bool, err string) {
	defer c20Recover(&err)
	form, exp := ip.c.Env.MacroExpandAstCodewalk(ast2.NodeSlice{X: nodes})
	return c20AstOut(form), exp, ""
}

// ---------------------------------------------------------------- part (a)

// c20HasTypeParams: the fork parser predates Go 1.18 generics; such files are outside the workload.
func c20HasTypeParams(f *ast.File) bool {
	found := false
	ast.Inspect(f, func(n ast.Node) bool {
		switch n := n.(type) {
		case *ast.FuncType:
			if n.TypeParams != nil {
				found = true
			}
		case *ast.TypeSpec:
			if n.TypeParams != nil {
				found = true
			}
		case *ast.IndexListExpr:
			found = true
		case *ast.InterfaceType:
			if n.Methods != nil {
				for _, m := range n.Methods.List {
					if len(m.Names) == 0 {
						switch t := m.Type.(type) {
						case *ast.BinaryExpr:
							found = true
						case *ast.UnaryExpr:
							if t.Op == token.TILDE {
								found = true
							}
						}
					}
				}
			}
		case *ast.UnaryExpr:
			if n.Op == token.TILDE {
				found = true
			}
		}
		return !found
	})
	return found
}

func c20ListGoFiles(root string) []string {
	root, err := filepath.EvalSymlinks(root)
	if err != nil {
		return nil
	}
	var files []string
	filepath.Walk(root, func(p string, info os.FileInfo, err error) error {
		if err != nil {
			return nil
		}
		if info.IsDir() {
			if info.Name() == ".git" {
				return filepath.SkipDir
			}
			return nil
		}
		if strings.HasSuffix(p, ".go") {
			files = append(files, p)
		}
		return nil
	})
	sort.Strings(files)
	return files
}

// c20RewriteKinds says which allowed rewrites separate a tree from its normal form (evidence only).
func c20RewriteKinds(before, normBefore *c20T, out map[string]int) {
	if before.countKind("ParenExpr") > 0 {
		out["paren_removed"]++
	}
	if before.countKind("BlockStmt") != normBefore.countKind("BlockStmt") {
		out["single_stmt_block_unwrapped"]++
	}
	if before.countKind("ExprStmt")+before.countKind("DeclStmt") != normBefore.countKind("ExprStmt")+normBefore.countKind("DeclStmt") {
		out["toplevel_stmt_wrapper_removed"]++
	}
}

func (t *c20T) countKind(k string) int {
	if t == nil {
		return 0
	}
	n := 0
	if t.K == k {
		n = 1
	}
	for _, c := range t.C {
		n += c.countKind(k)
	}
	return n
}

func (w *c20Worker) fileA(path string, verboseIndex int) {
	r := w.r
	src, err := os.ReadFile(path)
	if err != nil {
		return
	}
	fset := token.NewFileSet()
	gf, perr := goparser.ParseFile(fset, path, src, goparser.SkipObjectResolution)
	if perr != nil {
		r.Count("a_files_skipped_go_parser_rejects", 1)
		return
	}
	if c20HasTypeParams(gf) {
		r.Count("a_files_skipped_type_parameters", 1)
		return
	}
	w.fresh(200)
	type side struct {
		name  string
		parse func([]byte) ([]ast.Node, string)
		walk  func([]ast.Node) (*c20T, bool, string)
	}
	for _, s := range []side{{"fast", w.ip.parse, w.ip.walkFast}, {"classic", w.ip.parseClassic, w.ip.walkClassic}} {
		nodes, e := s.parse(src)
		if e != "" {
			// the fork parser rejecting a file go/parser accepts is C24/C25's subject, not C20's
			r.Count("a_files_skipped_fork_parser_rejects_"+s.name, 1)
			if os.Getenv("VERIF_VERBOSE") != "" {
				fmt.Printf("  fork parser rejects %s: %s\n", path, c20Clip(e, 200))
			}
			continue
		}
		before := c20FromNodes(nodes)
		after, expanded, e := s.walk(nodes)
		r.Count("a_files_"+s.name, 1)
		if e != "" {
			r.Violation("a-codewalk-panics-"+s.name, c20Replay{Part: "a", Interp: s.name, File: path, Index: -1},
				fmt.Sprintf("%s MacroExpandCodewalk panics on macro-free file %s: %s", s.name, path, e))
			continue
		}
		if expanded {
			r.Count("a_reported_expanded_"+s.name, 1)
		}
		if after == nil || !after.L || len(after.C) != len(before.C) {
			r.Eval(1)
			r.Violation("a-toplevel-count-"+s.name, c20Replay{Part: "a", Interp: s.name, File: path, Index: -1},
				fmt.Sprintf("%s MacroExpandCodewalk of %s: %d top-level nodes in, %d out", s.name, path, len(before.C), len(after.C)))
			continue
		}
		for i := range before.C {
			b, a := before.C[i], after.C[i]
			bs, as := b.String(), a.String()
			nb := c20Norm(b, c20sNode)
			na := c20Norm(a, c20sNode)
			nbs, nas := nb.String(), na.String()
			r.Eval(1)
			r.Cover("a_toplevel_kind", b.K)
			if b.K != "GenDecl" || !(strings.HasPrefix(b.V, "import") || strings.HasPrefix(b.V, "package")) {
				r.Distinct("a|" + nbs)
			}
			identical := bs == as
			if identical {
				r.Count("a_nodes_identical_"+s.name, 1)
			} else {
				r.Count("a_nodes_differ_only_by_allowed_rewrites_"+s.name, 1)
			}
			if s.name == "fast" {
				w.kinds(b)
				if !identical {
					rk := map[string]int{}
					c20RewriteKinds(b, nb, rk)
					for k, n := range rk {
						if n > 0 {
							r.Cover("a_rewrites_applied", k)
							if c20SampleSlot("a-" + k) {
								p, x, y := c20FirstDiff(b, a, "")
								if strings.HasPrefix(x, "ParenExpr") != (k == "paren_removed") {
									c20SampleFree("a-" + k)
									continue
								}
								r.Sample(map[string]string{"part": "a", "file": path, "rewrite": k, "at": p, "before": x, "after": y})
							}
						}
					}
				}
			}
			if verboseIndex == i || verboseIndex == -2 && nbs != nas {
				fmt.Printf("--- %s node %d (%s)\nbefore:      %s\nafter:       %s\nnorm before: %s\nnorm after:  %s\n", path, i, s.name, bs, as, nbs, nas)
			}
			if nbs != nas {
				p, x, y := c20FirstDiff(nb, na, "")
				r.Violation("a-changed-"+s.name+"-"+c20DiffKind(x, y), c20Replay{Part: "a", Interp: s.name, File: path, Index: i, Want: x, Got: y},
					fmt.Sprintf("%s MacroExpandCodewalk changed macro-free code beyond the allowed rewrites: %s top-level node %d at %s: before %s after %s", s.name, path, i, p, x, y))
			}
		}
	}
}

func c20DiffKind(x, y string) string {
	k := func(s string) string {
		for i, c := range s {
			if !(c >= 'a' && c <= 'z' || c >= 'A' && c <= 'Z' || c == '[' || c == ']' || c == '_') {
				return s[:i]
			}
		}
		return s
	}
	return k(x) + "-" + k(y)
}

// one evidence sample per category for the whole run (the framework keeps only the first six)
var (
	c20SampleMu   sync.Mutex
	c20SampleUsed = map[string]bool{}
)

func c20SampleSlot(k string) bool {
	c20SampleMu.Lock()
	defer c20SampleMu.Unlock()
	if c20SampleUsed[k] {
		return false
	}
	c20SampleUsed[k] = true
	return true
}

func c20SampleFree(k string) {
	c20SampleMu.Lock()
	delete(c20SampleUsed, k)
	c20SampleMu.Unlock()
}

type c20Worker struct {
	r    *fw.Run
	ip   *c20Interps
	used int
}

func c20NewWorker(r *fw.Run) *c20Worker {
	return &c20Worker{r: r, ip: c20NewInterps()}
}

// fresh replaces the interpreters every n uses (their FileSet grows with every parsed file)
func (w *c20Worker) fresh(n int) {
	w.used++
	if w.used%n == 0 {
		w.ip = c20NewInterps()
	}
}

func (w *c20Worker) kinds(t *c20T) {
	if t == nil {
		return
	}
	if !t.L {
		w.r.Cover("a_node_kinds", t.K)
	}
	for _, c := range t.C {
		w.kinds(c)
	}
}

func c20PartA(r *fw.Run) {
	goroot := runtime.GOROOT()
	std := c20ListGoFiles(filepath.Join(goroot, "src"))
	repo := c20ListGoFiles("/repo")
	if len(std) < 1000 || len(repo) < 100 {
		r.Inconclusive(fmt.Sprintf("corpus not found: %d files under %s/src, %d under /repo", len(std), goroot, len(repo)))
		return
	}
	files := append([]string{}, std...)
	files = append(files, repo...)
	if !r.Thorough() {
		rng := r.Rng("a-files")
		pick := func(list []string, n int) []string {
			idx := rng.Perm(len(list))[:n]
			sort.Ints(idx)
			out := make([]string, n)
			for i, j := range idx {
				out[i] = list[j]
			}
			return out
		}
		files = append(pick(std, 400), pick(repo, 80)...)
	}
	r.Extra("a_files_listed", map[string]int{"std": len(std), "repo": len(repo), "selected": len(files)})
	var wg sync.WaitGroup
	ch := make(chan string, 64)
	for i := 0; i < runtime.NumCPU(); i++ {
		wg.Add(1)
		go func() {
			defer wg.Done()
			w := c20NewWorker(r)
			for p := range ch {
				w.fileA(p, -1)
			}
		}()
	}
	for _, p := range files {
		ch <- p
	}
	close(ch)
	wg.Wait()
}

func checkC20(r *fw.Run) {
	r.SetRule("(a) every top-level node of the GOROOT/src files without type parameters (quick: 400 seeded files; thorough: all) and of /repo/**/*.go (quick: 80; thorough: all), parsed by the fork parser as the interpreters do and pushed file by file through fast and classic MacroExpandCodewalk; distinct = distinct normalised top-level declarations other than package/import clauses; oracle = position-insensitive structural equality after normalising both sides with the mirror of UnwrapTrivialAst (ParenExpr removed, one-statement non-declaring block in statement position replaced by its statement, nothing else). " + c20RuleB)
	r.Assume("go/ast trees are compared through a reflection-built generic tree that drops token.Pos (except TypeSpec.Assign and CallExpr.Ellipsis, kept as flags), comments, Obj/Scope and EmptyStmt.Implicit")
	r.Assume("files go/parser rejects, files using type parameters (the fork parser predates them) and files the fork parser rejects are skipped and counted; that the two allowed rewrites preserve meaning is observed by the E1 checks, which evaluate every program through the code walk")
	if p := fw.ReplayArg(); p != "" {
		var rep c20Replay
		if err := fw.LoadReplay(p, &rep); err != nil {
			panic(err)
		}
		r.SetMinDistinct(0)
		w := c20NewWorker(r)
		if rep.Part == "a" {
			idx := rep.Index
			if idx < 0 {
				idx = -2
			}
			w.fileA(rep.File, idx)
		} else {
			c20ReplayB(r, &rep)
		}
		return
	}
	c20PartA(r)
	c20PartB(r)
}
