// Package tr renders trace events canonically. The same source file is used by the
// harness (interpreter side) and copied verbatim into the compiled reference module,
// so both sides render values with identical code.
package tr

import (
	"fmt"
	"math"
	"reflect"
	"sort"
	"strconv"
	"strings"
)

// Trace collects the events of one program run.
type Trace struct {
	Events []string
	Hooks  int
}

func (t *Trace) Rec(tag int, vals ...interface{}) {
	var b strings.Builder
	b.WriteString(strconv.Itoa(tag))
	for _, v := range vals {
		b.WriteByte('|')
		b.WriteString(Render(v))
	}
	t.Events = append(t.Events, b.String())
}

// Render gives a canonical, address-free rendering of a value: reflect kind + exact value.
// Named types are rendered by kind only (the interpreter emulates program-declared named types).
func Render(v interface{}) string {
	if v == nil {
		return "nil"
	}
	var b strings.Builder
	if nc, ok := v.(NoCap); ok {
		if nc.V == nil {
			return "nil"
		}
		noCap = true
		render(&b, reflect.ValueOf(nc.V), 0)
		noCap = false
		return b.String()
	}
	render(&b, reflect.ValueOf(v), 0)
	return b.String()
}

// NoCap wraps a value whose slice capacities are unspecified by the language (e.g. []byte(s)):
// slices inside it are rendered with their length only.
type NoCap struct{ V interface{} }

// rendering is single-threaded per process side (trace hooks are called by one goroutine at a time
// in the programs that use NoCap)
var noCap bool

func render(b *strings.Builder, v reflect.Value, depth int) {
	if !v.IsValid() {
		b.WriteString("nil")
		return
	}
	if depth > 6 {
		b.WriteString("...")
		return
	}
	switch k := v.Kind(); k {
	case reflect.Bool:
		if v.Bool() {
			b.WriteString("bool:true")
		} else {
			b.WriteString("bool:false")
		}
	case reflect.Int, reflect.Int8, reflect.Int16, reflect.Int32, reflect.Int64:
		b.WriteString(k.String())
		b.WriteByte(':')
		b.WriteString(strconv.FormatInt(v.Int(), 10))
	case reflect.Uint, reflect.Uint8, reflect.Uint16, reflect.Uint32, reflect.Uint64, reflect.Uintptr:
		b.WriteString(k.String())
		b.WriteByte(':')
		b.WriteString(strconv.FormatUint(v.Uint(), 10))
	case reflect.Float32:
		b.WriteString("float32:")
		b.WriteString(fbits(v.Float(), true))
	case reflect.Float64:
		b.WriteString("float64:")
		b.WriteString(fbits(v.Float(), false))
	case reflect.Complex64:
		c := v.Complex()
		b.WriteString("complex64:(" + fbits(real(c), true) + "," + fbits(imag(c), true) + ")")
	case reflect.Complex128:
		c := v.Complex()
		b.WriteString("complex128:(" + fbits(real(c), false) + "," + fbits(imag(c), false) + ")")
	case reflect.String:
		b.WriteString("string:")
		b.WriteString(strconv.Quote(v.String()))
	case reflect.Slice:
		if v.IsNil() {
			b.WriteString("slice:nil")
			return
		}
		if noCap {
			fmt.Fprintf(b, "slice[%d]{", v.Len())
		} else {
			fmt.Fprintf(b, "slice[%d/%d]{", v.Len(), v.Cap())
		}
		for i := 0; i < v.Len(); i++ {
			if i > 0 {
				b.WriteByte(' ')
			}
			if i >= 64 {
				b.WriteString("...")
				break
			}
			render(b, v.Index(i), depth+1)
		}
		b.WriteByte('}')
	case reflect.Array:
		fmt.Fprintf(b, "array[%d]{", v.Len())
		for i := 0; i < v.Len(); i++ {
			if i > 0 {
				b.WriteByte(' ')
			}
			if i >= 64 {
				b.WriteString("...")
				break
			}
			render(b, v.Index(i), depth+1)
		}
		b.WriteByte('}')
	case reflect.Map:
		if v.IsNil() {
			b.WriteString("map:nil")
			return
		}
		items := make([]string, 0, v.Len())
		iter := v.MapRange()
		for iter.Next() {
			var kb strings.Builder
			render(&kb, iter.Key(), depth+1)
			kb.WriteString("=>")
			render(&kb, iter.Value(), depth+1)
			items = append(items, kb.String())
		}
		sort.Strings(items)
		fmt.Fprintf(b, "map[%d]{%s}", v.Len(), strings.Join(items, " "))
	case reflect.Struct:
		b.WriteString("struct{")
		for i := 0; i < v.NumField(); i++ {
			if i > 0 {
				b.WriteByte(' ')
			}
			f := v.Field(i)
			render(b, f, depth+1)
		}
		b.WriteByte('}')
	case reflect.Ptr:
		if v.IsNil() {
			b.WriteString("ptr:nil")
			return
		}
		b.WriteString("&")
		render(b, v.Elem(), depth+1)
	case reflect.Interface:
		if v.IsNil() {
			b.WriteString("iface:nil")
			return
		}
		render(b, v.Elem(), depth) // dynamic value
	case reflect.Func:
		if v.IsNil() {
			b.WriteString("func:nil")
		} else {
			b.WriteString("func")
		}
	case reflect.Chan:
		if v.IsNil() {
			b.WriteString("chan:nil")
		} else {
			fmt.Fprintf(b, "chan[%d/%d]", v.Len(), v.Cap())
		}
	case reflect.UnsafePointer:
		b.WriteString("unsafeptr")
	default:
		b.WriteString("?" + k.String())
	}
}

func fbits(f float64, is32 bool) string {
	if f != f {
		return "NaN"
	}
	if is32 {
		return "0x" + strconv.FormatUint(uint64(math.Float32bits(float32(f))), 16)
	}
	return "0x" + strconv.FormatUint(math.Float64bits(f), 16)
}

// PanicClass maps a recovered value to a wording-independent class: the interpreter raises
// reflect-worded panics where compiled code raises runtime errors.
func PanicClass(r interface{}) string {
	if r == nil {
		return "nil"
	}
	var msg string
	isErr := false
	switch x := r.(type) {
	case error:
		msg = x.Error()
		isErr = true
	case string:
		msg = x
	case fmt.Stringer:
		// reflect.ValueError etc. are errors; a user Stringer is rendered structurally below
		return "user:" + Render(r)
	default:
		return "user:" + Render(r)
	}
	l := strings.ToLower(msg)
	switch {
	case strings.Contains(l, "divide by zero"), strings.Contains(l, "division by zero"):
		return "divide"
	case strings.Contains(l, "index out of range"), strings.Contains(l, "bounds out of range"),
		strings.Contains(l, "index out of bounds"), strings.Contains(l, "slice bounds"),
		strings.Contains(l, "out of range") && (strings.Contains(l, "reflect") || strings.Contains(l, "index") || strings.Contains(l, "slice")),
		strings.Contains(l, "len out of range"), strings.Contains(l, "cap out of range"),
		strings.Contains(l, "makeslice"), strings.Contains(l, "makechan"), strings.Contains(l, "makemap"), strings.Contains(l, "negative buffer size"), strings.Contains(l, "negative len"), strings.Contains(l, "negative cap"),
		strings.Contains(l, "len larger than cap"), strings.Contains(l, "len > cap"),
		strings.Contains(l, "cannot convert slice with length"):
		return "bounds"
	case strings.Contains(l, "nil map"):
		return "nilmap"
	case strings.Contains(l, "nil pointer"), strings.Contains(l, "invalid memory address"),
		strings.Contains(l, "on zero value"), strings.Contains(l, "using zero value argument"), strings.Contains(l, "nil func"):
		return "nilderef"
	case strings.Contains(l, "negative shift"):
		return "negshift"
	case strings.Contains(l, "interface conversion"), strings.Contains(l, "type assertion"),
		strings.Contains(l, "type assert"):
		return "typeassert"
	case strings.Contains(l, "closed channel"), strings.Contains(l, "close of nil channel"),
		strings.Contains(l, "close of closed"):
		return "chan"
	case strings.Contains(l, "unhashable"), strings.Contains(l, "uncomparable"), strings.Contains(l, "incomparable"):
		return "unhashable"
	}
	if isErr {
		if _, ok := r.(interface{ RuntimeError() }); ok {
			return "runtime:" + msg
		}
		return "user-error:" + strconv.Quote(msg)
	}
	return "user:" + Render(r)
}
