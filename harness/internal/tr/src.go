package tr

import _ "embed"

// Source is this package's renderer source, copied into the compiled reference module.
//
//go:embed tr.go
var Source string
