// Package fw is the shared plumbing of every gmverif check: seeds, tiers,
// coverage counters, evidence files, replay files, known findings, verdicts.
package fw

import (
	"crypto/sha1"
	"encoding/hex"
	"encoding/json"
	"fmt"
	"math/rand"
	"os"
	"path/filepath"
	"sort"
	"strconv"
	"strings"
	"sync"
	"time"
)

const VerifDir = "/verif"

// Finding is one entry of /verif/known_findings.json
type Finding struct {
	Property   string `json:"property"`
	Id         string `json:"id"`
	Kind       string `json:"kind"` // "finding" | "fixed"
	What       string `json:"what"`
	Reproducer string `json:"reproducer,omitempty"`
	Commit     string `json:"commit,omitempty"`
}

type Run struct {
	Prop  string
	Tier  string // quick | thorough
	Seed  int64
	Level string

	mu         sync.Mutex
	start      time.Time
	evals      int64
	distinct   map[[8]byte]struct{}
	samples    []interface{}
	maxSamples int
	cover      map[string]map[string]int64
	counters   map[string]int64
	rule       string
	assume     []string
	extra      map[string]interface{}
	violations int
	knownSeen  map[string]int
	inconcl    []string
	findings   map[string]Finding
	exhaustive bool
	minDistinct int
	violTags   map[string]int
}

func NewRun(prop, level string) *Run {
	r := &Run{Prop: prop, Level: level, Tier: "quick", Seed: 1, start: time.Now(),
		distinct: map[[8]byte]struct{}{}, cover: map[string]map[string]int64{},
		counters: map[string]int64{}, extra: map[string]interface{}{}, knownSeen: map[string]int{},
		findings: map[string]Finding{}, maxSamples: 6, minDistinct: 2}
	if t := os.Getenv("VERIF_TIER"); t == "thorough" || t == "quick" {
		r.Tier = t
	}
	if s := os.Getenv("VERIF_SEED"); s != "" {
		if n, err := strconv.ParseInt(s, 10, 64); err == nil {
			r.Seed = n
		}
	}
	data, err := os.ReadFile(filepath.Join(VerifDir, "known_findings.json"))
	if err == nil {
		var fs []Finding
		if err := json.Unmarshal(data, &fs); err != nil {
			fmt.Fprintf(os.Stderr, "known_findings.json: %v\n", err)
			os.Exit(2)
		}
		for _, f := range fs {
			if f.Property == prop {
				r.findings[f.Id] = f
			}
		}
	}
	return r
}

func (r *Run) Thorough() bool { return r.Tier == "thorough" }

// Pick returns q in the quick tier and t in the thorough tier.
func (r *Run) Pick(q, t int) int {
	if r.Thorough() {
		return t
	}
	return q
}

// Rng returns a PRNG determined by VERIF_SEED and the stream name.
func (r *Run) Rng(stream string) *rand.Rand {
	h := sha1.Sum([]byte(fmt.Sprintf("%s/%s/%d", r.Prop, stream, r.Seed)))
	var s int64
	for i := 0; i < 8; i++ {
		s = s<<8 | int64(h[i])
	}
	return rand.New(rand.NewSource(s))
}

func (r *Run) SetRule(s string)         { r.rule = s }
func (r *Run) Assume(s string)          { r.assume = append(r.assume, s) }
func (r *Run) SetExhaustive(b bool)     { r.exhaustive = b }
func (r *Run) SetMinDistinct(n int)     { r.minDistinct = n }
func (r *Run) SetMaxSamples(n int)      { r.maxSamples = n }
func (r *Run) Extra(k string, v interface{}) {
	r.mu.Lock()
	r.extra[k] = v
	r.mu.Unlock()
}

// Eval counts n oracle comparisons.
func (r *Run) Eval(n int) {
	r.mu.Lock()
	r.evals += int64(n)
	r.mu.Unlock()
}

// Distinct records a distinct non-trivial case key; returns true when new.
func (r *Run) Distinct(key string) bool {
	h := sha1.Sum([]byte(key))
	var k [8]byte
	copy(k[:], h[:8])
	r.mu.Lock()
	_, ok := r.distinct[k]
	if !ok {
		r.distinct[k] = struct{}{}
	}
	r.mu.Unlock()
	return !ok
}

func (r *Run) NumDistinct() int {
	r.mu.Lock()
	defer r.mu.Unlock()
	return len(r.distinct)
}

// Sample keeps up to maxSamples example cases for the evidence file.
func (r *Run) Sample(v interface{}) {
	r.mu.Lock()
	if len(r.samples) < r.maxSamples {
		r.samples = append(r.samples, v)
	}
	r.mu.Unlock()
}

// Cover increments a cell of a named coverage table.
func (r *Run) Cover(dim, cell string) {
	r.mu.Lock()
	m := r.cover[dim]
	if m == nil {
		m = map[string]int64{}
		r.cover[dim] = m
	}
	m[cell]++
	r.mu.Unlock()
}

func (r *Run) Count(name string, n int64) {
	r.mu.Lock()
	r.counters[name] += n
	r.mu.Unlock()
}

func (r *Run) Counter(name string) int64 {
	r.mu.Lock()
	defer r.mu.Unlock()
	return r.counters[name]
}

// Known reports an occurrence of a defect listed in known_findings.json.
// If the id is not listed as an open finding it is a violation.
func (r *Run) Known(id string, replay interface{}, what string) {
	r.mu.Lock()
	f, ok := r.findings[id]
	if ok && f.Kind == "finding" {
		r.knownSeen[id]++
		first := r.knownSeen[id] == 1
		r.mu.Unlock()
		if first {
			fmt.Printf("KNOWN-FINDING: property=%s %s: %s\n", r.Prop, id, oneLine(f.What))
		}
		return
	}
	r.mu.Unlock()
	r.Violation(id, replay, what)
}

// Violation writes a replay file and prints the VIOLATION line.
func (r *Run) Violation(tag string, replay interface{}, what string) {
	r.mu.Lock()
	r.violations++
	n := r.violations
	if r.violTags == nil {
		r.violTags = map[string]int{}
	}
	r.violTags[tag]++
	r.mu.Unlock()
	if n > 25 {
		if n <= 400 && os.Getenv("VERIF_VERBOSE") != "" {
			fmt.Printf("  (more) %s: %s\n", tag, clip(oneLine(what), 300))
		}
		return // enough witnesses; keep counting
	}
	dir := filepath.Join(VerifDir, "replays")
	os.MkdirAll(dir, 0o755)
	path := filepath.Join(dir, fmt.Sprintf("%s-%s-seed%d-%d.json", r.Prop, sanitize(tag), r.Seed, n))
	doc := map[string]interface{}{"property": r.Prop, "tier": r.Tier, "seed": r.Seed, "tag": tag, "what": what, "replay": replay}
	data, _ := json.MarshalIndent(doc, "", " ")
	os.WriteFile(path, data, 0o644)
	fmt.Printf("VIOLATION property=%s replay=%s\n", r.Prop, path)
	fmt.Printf("  what: %s\n", clip(oneLine(what), 600))
}

func (r *Run) Violations() int {
	r.mu.Lock()
	defer r.mu.Unlock()
	return r.violations
}

// Inconclusive records a reason the run cannot give a verdict (exit 3, never a VIOLATION).
func (r *Run) Inconclusive(reason string) {
	r.mu.Lock()
	r.inconcl = append(r.inconcl, reason)
	r.mu.Unlock()
	fmt.Printf("INCONCLUSIVE property=%s %s\n", r.Prop, oneLine(reason))
}

// Finish writes the evidence file and exits.
func (r *Run) Finish() {
	r.mu.Lock()
	wall := time.Since(r.start).Seconds()
	nd := len(r.distinct)
	if r.evals < 1 || nd < r.minDistinct {
		r.inconcl = append(r.inconcl, fmt.Sprintf("observed too little: evaluations=%d distinct=%d (floor %d)", r.evals, nd, r.minDistinct))
		fmt.Printf("INCONCLUSIVE property=%s observed too little: evaluations=%d distinct=%d\n", r.Prop, r.evals, nd)
	}
	if len(r.samples) == 0 {
		r.samples = append(r.samples, "no sample recorded")
	}
	cov := map[string]interface{}{
		"evaluations":         r.evals,
		"distinct_nontrivial": nd,
		"rule":                r.rule,
		"samples":             r.samples,
		"exhaustive":          r.exhaustive,
	}
	tables := map[string]interface{}{}
	for dim, m := range r.cover {
		if len(m) > 400 {
			// summarise big tables
			var min, max int64 = 1 << 62, 0
			for _, v := range m {
				if v < min {
					min = v
				}
				if v > max {
					max = v
				}
			}
			tables[dim] = map[string]interface{}{"cells": len(m), "min_hits": min, "max_hits": max}
		} else {
			tables[dim] = m
		}
	}
	if len(tables) > 0 {
		cov["tables"] = tables
	}
	if len(r.counters) > 0 {
		cov["counters"] = r.counters
	}
	for k, v := range r.extra {
		cov[k] = v
	}
	ks := []string{}
	for k := range r.knownSeen {
		ks = append(ks, k)
	}
	sort.Strings(ks)
	cov["known_findings_seen"] = ks
	cov["inconclusive"] = r.inconcl
	ev := map[string]interface{}{
		"property_id": r.Prop, "tier": r.Tier, "seed": r.Seed, "level": r.Level,
		"coverage": cov, "assumptions": r.assume, "wall_s": wall, "violations": r.violations,
	}
	if ev["assumptions"] == nil || len(r.assume) == 0 {
		ev["assumptions"] = []string{}
	}
	viol, inc := r.violations, len(r.inconcl)
	if viol > 25 {
		tags := make([]string, 0, len(r.violTags))
		for t := range r.violTags {
			tags = append(tags, t)
		}
		sort.Strings(tags)
		fmt.Printf("violation tags (%d): %s\n", len(tags), clip(strings.Join(tags, " "), 6000))
	}
	r.mu.Unlock()
	data, err := json.MarshalIndent(ev, "", " ")
	if err != nil {
		fmt.Fprintf(os.Stderr, "evidence marshal: %v\n", err)
		os.Exit(2)
	}
	os.MkdirAll(filepath.Join(VerifDir, "evidence"), 0o755)
	if err := os.WriteFile(filepath.Join(VerifDir, "evidence", r.Prop+".json"), data, 0o644); err != nil {
		fmt.Fprintf(os.Stderr, "evidence write: %v\n", err)
		os.Exit(2)
	}
	fmt.Printf("%s %s seed=%d: evaluations=%d distinct=%d violations=%d known=%v wall=%.1fs\n",
		r.Prop, r.Tier, r.Seed, r.evals, nd, viol, ks, wall)
	switch {
	case viol > 0:
		os.Exit(1)
	case inc > 0:
		os.Exit(3)
	}
	os.Exit(0)
}

func sanitize(s string) string {
	var b strings.Builder
	for _, c := range s {
		if c >= 'a' && c <= 'z' || c >= 'A' && c <= 'Z' || c >= '0' && c <= '9' || c == '-' || c == '_' {
			b.WriteRune(c)
		} else {
			b.WriteByte('_')
		}
		if b.Len() > 40 {
			break
		}
	}
	return b.String()
}

func oneLine(s string) string { return strings.Join(strings.Fields(s), " ") }

func clip(s string, n int) string {
	if len(s) > n {
		return s[:n] + "..."
	}
	return s
}

func Clip(s string, n int) string { return clip(s, n) }

func Hash(s string) string {
	h := sha1.Sum([]byte(s))
	return hex.EncodeToString(h[:6])
}

// WorkDir returns a fresh scratch directory under /verif/work (removed by the caller).
func WorkDir(name string) string {
	d := filepath.Join(VerifDir, "work", fmt.Sprintf("%s-%d", name, os.Getpid()))
	os.RemoveAll(d)
	os.MkdirAll(d, 0o755)
	return d
}

// ReplayArg returns the path given with --replay, if any.
func ReplayArg() string {
	for i, a := range os.Args {
		if a == "--replay" && i+1 < len(os.Args) {
			return os.Args[i+1]
		}
	}
	return ""
}

// LoadReplay reads the "replay" member of a replay file into v.
func LoadReplay(path string, v interface{}) error {
	data, err := os.ReadFile(path)
	if err != nil {
		return err
	}
	var doc struct {
		Replay json.RawMessage `json:"replay"`
	}
	if err := json.Unmarshal(data, &doc); err != nil {
		return err
	}
	return json.Unmarshal(doc.Replay, v)
}
